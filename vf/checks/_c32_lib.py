"""C32 helpers: in-process smart server with join watchdog, the two execution sides (local paths /
bzr:// URLs), and the operation table executed identically on both twins."""
import os
import socket
import threading

from vf import gen
from vf.observe import snap_disk, snap_tree

CLIENT_SOCKET_TIMEOUT = 40.0
SERVER_CLIENT_TIMEOUT = 900.0  # idle clients are dropped after this; must exceed any case duration on a loaded machine
JOIN_TIMEOUT = 10.0


class Stuck(Exception):
    """A socket operation timed out / a server thread did not join: inconclusive for the case."""


class NeedsVfs(Exception):
    """The remote side needed a VFS verb while VFS was disabled (not a verdict)."""


# ------------------------------------------------------------------ server

class Server:
    """SmartTCPServer on 127.0.0.1:0 in a background thread over a chroot of `root`
    (the way SmartTCPServer_for_testing / `brz serve` build it), stopped with bounded joins."""

    def __init__(self, root):
        from breezy.bzr.smart import server as _srv
        from dromedary import chroot, get_transport_from_path, get_transport_from_url

        self.chroot = chroot.ChrootServer(get_transport_from_path(root))
        self.chroot.start_server()
        try:
            t = get_transport_from_url(self.chroot.get_url())
            self.srv = _srv.SmartTCPServer(t, client_timeout=SERVER_CLIENT_TIMEOUT)
            self.srv._ACCEPT_TIMEOUT = 0.2
            self.srv.start_server("127.0.0.1", 0)
            self.srv.start_background_thread("-c32")
        except BaseException:
            self.chroot.stop_server()
            raise
        self.url = self.srv.get_url()
        self.conn_threads = []
        self.timeouts = []  # ConnectionTimeout raised inside a connection handler (idle client dropped)
        self.exceptions = []  # any other exception that terminated a connection handler
        orig = self.srv.serve_conn
        orig_make = self.srv._make_handler

        def make_handler(conn):
            from breezy import errors as _e

            h = orig_make(conn)
            o_serve, o_wait = h.serve, h._wait_for_bytes_with_timeout

            def serve():
                try:
                    o_serve()
                except BaseException as e:
                    self.exceptions.append(repr(e)[:300])
                    raise

            def wait(t):
                try:
                    return o_wait(t)
                except _e.ConnectionTimeout:
                    self.timeouts.append(1)
                    raise

            h.serve, h._wait_for_bytes_with_timeout = serve, wait
            return h

        self.srv._make_handler = make_handler

        def serve_conn(conn, suffix):
            th = orig(conn, suffix)
            self.conn_threads.append(th)
            return th

        self.srv.serve_conn = serve_conn

    def stop(self):
        """Returns list of problems ('server-thread-stuck', 'conn-thread-stuck:N'); never blocks unboundedly."""
        problems = []
        srv = self.srv
        try:
            srv._should_terminate = True
            try:
                srv._server_socket.close()
            except OSError:
                pass
            if not srv._stopped.is_set():
                s = socket.socket()
                s.settimeout(2.0)
                try:
                    if not s.connect_ex(srv._sockname):
                        pass
                finally:
                    s.close()
            srv._stopped.wait(JOIN_TIMEOUT)
            srv._server_thread.join(JOIN_TIMEOUT)
            if srv._server_thread.is_alive():
                problems.append("server-thread-stuck")
            alive = 0
            for th in self.conn_threads:
                th.join(0.5 if alive else JOIN_TIMEOUT)
                if th.is_alive():
                    alive += 1
            if alive:
                problems.append("conn-thread-stuck:%d" % alive)
        finally:
            try:
                self.chroot.stop_server()
            except Exception:
                pass
        return problems


# ------------------------------------------------------------------ sides

class Side:
    """One twin: `root`/srv is the served tree, `root`/ext local-only branches, `root`/co checkouts."""

    def __init__(self, kind, root, base_url=None):
        self.kind = kind
        self.root = root.rstrip("/")
        self.srv = os.path.join(self.root, "srv")
        self.base_url = base_url
        self.handles = {}
        self.tracked = []
        self.tokens = {}

    def is_served(self, name):
        return not name.startswith("x")

    def loc(self, name):
        if not self.is_served(name):
            return os.path.join(self.root, "ext", name)
        if self.base_url:
            return self.base_url + name
        return os.path.join(self.srv, name)

    def local_path(self, name):
        if not self.is_served(name):
            return os.path.join(self.root, "ext", name)
        return os.path.join(self.srv, name)

    def open_branch(self, name):
        from breezy.branch import Branch

        b = Branch.open(self.loc(name))
        self.tracked.append(b)
        return b

    def branch(self, name, slot="A"):
        k = (name, slot)
        if k not in self.handles:
            self.handles[k] = self.open_branch(name)
        return self.handles[k]

    def drop(self, name, slot):
        self.handles.pop((name, slot), None)

    def close(self):
        for b in self.tracked:
            try:
                while b.is_locked():
                    b.unlock()
            except BaseException:
                pass
        for b in self.tracked:
            try:
                med = b.controldir.root_transport.get_smart_medium()
                med.disconnect()
            except BaseException:
                pass
        self.handles.clear()
        self.tracked = []

    # -- normalisation of values that legitimately differ between the twins
    def norm(self, v):
        if isinstance(v, str):
            s = v
            if self.base_url:
                s = s.replace(self.base_url, "SRV/")
                s = s.replace(self.base_url.rstrip("/"), "SRV")
            s = s.replace("file://" + self.srv + "/", "SRV/").replace(self.srv + "/", "SRV/")
            s = s.replace("file://" + self.srv, "SRV").replace(self.srv, "SRV")
            s = s.replace("file://" + self.root + "/", "SIDE/").replace(self.root + "/", "SIDE/")
            return s
        if isinstance(v, bytes):
            return v
        if isinstance(v, (list, tuple)):
            return tuple(self.norm(x) for x in v)
        if isinstance(v, dict):
            return tuple(sorted(((self.norm(k), self.norm(x)) for k, x in v.items()), key=repr))
        if isinstance(v, (set, frozenset)):
            return tuple(sorted((self.norm(x) for x in v), key=repr))
        return v


# ------------------------------------------------------------------ operations
# every function takes (side, op) and returns a plain value; exceptions are classified by the caller

def _lk(b, mode):
    import contextlib

    if mode == "r":
        return b.lock_read()
    if mode == "w":
        return b.lock_write()
    return contextlib.nullcontext()


def op_last_info(s, op):
    b = s.branch(op["b"], op["slot"])
    with _lk(b, op.get("lk")):
        return (b.last_revision_info(), b.last_revision(), b.revno())


def op_revno_of(s, op):
    b = s.branch(op["b"], op["slot"])
    with _lk(b, op.get("lk")):
        return b.revision_id_to_revno(op["rev"])


def op_dotted(s, op):
    b = s.branch(op["b"], op["slot"])
    with _lk(b, op.get("lk")):
        return b.revision_id_to_dotted_revno(op["rev"])


def op_rev_id(s, op):
    from breezy import errors

    b = s.branch(op["b"], op["slot"])
    with _lk(b, op.get("lk")):
        try:
            return b.get_rev_id(op["revno"])
        except (errors.NoSuchRevision, errors.RevnoOutOfBounds):
            # Branch.get_rev_id raises NoSuchRevision, BzrBranch / RemoteBranch RevnoOutOfBounds; every caller in breezy
            # (log, revisionspec) treats the two alike
            return "NO-SUCH-REVNO"


def op_tag_set(s, op):
    b = s.branch(op["b"], op["slot"])
    with _lk(b, op.get("lk")):
        b.tags.set_tag(op["tag"], op["rev"])
        return sorted(b.tags.get_tag_dict().items())


def op_tag_del(s, op):
    b = s.branch(op["b"], op["slot"])
    with _lk(b, op.get("lk")):
        b.tags.delete_tag(op["tag"])
        return sorted(b.tags.get_tag_dict().items())


def op_tag_dict(s, op):
    b = s.branch(op["b"], op["slot"])
    with _lk(b, op.get("lk")):
        d = b.tags.get_tag_dict()
        rev = b.tags.get_reverse_tag_dict()
        return (sorted(d.items()), sorted((k, sorted(v)) for k, v in rev.items()))


def op_tag_lookup(s, op):
    b = s.branch(op["b"], op["slot"])
    with _lk(b, op.get("lk")):
        return (b.tags.has_tag(op["tag"]), b.tags.lookup_tag(op["tag"]))


def op_conf_set(s, op):
    b = s.branch(op["b"], op["slot"])
    with _lk(b, op.get("lk")):
        if op.get("api") == "old":
            b.get_config().set_user_option(op["name"], op["value"])
            return b.get_config().get_user_option(op["name"])
        st = b.get_config_stack()
        st.set(op["name"], op["value"])
        return st.get(op["name"])


def op_conf_get(s, op):
    b = s.branch(op["b"], op["slot"])
    with _lk(b, op.get("lk")):
        if op.get("api") == "old":
            return b.get_config().get_user_option(op["name"])
        return b.get_config_stack().get(op["name"])


def op_conf_remove(s, op):
    b = s.branch(op["b"], op["slot"])
    with _lk(b, op.get("lk")):
        st = b.get_config_stack()
        st.remove(op["name"])
        return st.get(op["name"])


def op_parent_get(s, op):
    b = s.branch(op["b"], op["slot"])
    with _lk(b, op.get("lk")):
        return (b.get_parent(), b.get_bound_location())


def op_parent_set(s, op):
    b = s.branch(op["b"], op["slot"])
    with _lk(b, op.get("lk")):
        b.set_parent(s.loc(op["to"]) if op.get("to") else None)
        return b.get_parent()


def op_push_loc_set(s, op):
    b = s.branch(op["b"], op["slot"])
    with _lk(b, op.get("lk")):
        b.set_push_location("SRVX/" + op["to"])
        return b.get_push_location()


def op_push_loc_get(s, op):
    b = s.branch(op["b"], op["slot"])
    with _lk(b, op.get("lk")):
        return (b.get_push_location(), b.get_submit_branch(), b.get_public_branch())


def op_stacked_on(s, op):
    b = s.branch(op["b"], op["slot"])
    with _lk(b, op.get("lk")):
        return b.get_stacked_on_url()


def op_phys(s, op):
    b = s.branch(op["b"], op["slot"])
    return (b.get_physical_lock_status(), b.repository.get_physical_lock_status())


def op_set_lri(s, op):
    b = s.branch(op["b"], op["slot"])
    with _lk(b, op.get("lk")):
        b.set_last_revision_info(op["revno"], op["rev"])
        return b.last_revision_info()


def op_gen_rh(s, op):
    b = s.branch(op["b"], op["slot"])
    with _lk(b, op.get("lk")):
        b.generate_revision_history(op["rev"])
        return b.last_revision_info()


def op_reopen(s, op):
    s.drop(op["b"], op["slot"])
    b = s.branch(op["b"], op["slot"])
    return (b.last_revision_info(), type(b._format).__name__ != "", b.repository._format.rich_root_data,
            b.repository._format.supports_chks, b.repository.is_shared(), b.repository.make_working_trees(),
            b._format.supports_tags(), b._format.supports_stacking())


def op_lock_episode(s, op):
    """write lock with tokens handed from one handle to another."""
    from breezy import errors

    out = []
    a = s.branch(op["b"], "A")
    c = s.branch(op["b"], "B")

    def step(label, f):
        try:
            r = f()
            out.append((label, "ok", r))
            return r
        except (Stuck, NeedsVfs):
            raise
        except errors.BzrError as e:
            out.append((label, "err", type(e).__name__))
        except NotImplementedError:
            out.append((label, "err", "NotImplementedError"))
        return None

    res = step("A.lock_write", lambda: a.lock_write())
    if res is None:
        return out
    tok = res.token
    out[-1] = ("A.lock_write", "ok", tok is not None)
    step("A.phys", lambda: a.get_physical_lock_status())
    if op["variant"] == "contend":
        r2 = step("B.lock_write", lambda: c.lock_write())
        if r2 is not None:
            out[-1] = ("B.lock_write", "ok", "ACQUIRED-WHILE-HELD")
            c.unlock()
        step("B.read-under-A", lambda: c.last_revision_info())
        step("A.unlock", lambda: a.unlock())
        step("B.phys-after", lambda: c.get_physical_lock_status())
        return out
    if tok is None:
        step("A.unlock", lambda: a.unlock())
        return out
    step("A.leave", lambda: a.leave_lock_in_place())
    step("A.unlock", lambda: a.unlock())
    step("B.phys-left", lambda: c.get_physical_lock_status())
    if op["variant"] == "mismatch":
        r2 = step("B.lock_write(bogus)", lambda: c.lock_write(token=b"bogus-token"))
        if r2 is not None:
            out[-1] = ("B.lock_write(bogus)", "ok", "ACQUIRED-WITH-BOGUS-TOKEN")
            step("B.unlock-bogus", lambda: c.unlock())
    r3 = step("B.lock_write(token)", lambda: c.lock_write(token=tok))
    if r3 is None:
        # clean up with the original handle so the twins stay usable
        r4 = step("A.relock(token)", lambda: a.lock_write(token=tok))
        if r4 is not None:
            step("A.dont_leave", lambda: a.dont_leave_lock_in_place())
            step("A.unlock2", lambda: a.unlock())
        return out
    out[-1] = ("B.lock_write(token)", "ok", r3.token == tok)
    if op.get("tag"):
        step("B.set_tag", lambda: c.tags.set_tag(op["tag"], op["rev"]))
    if op.get("lri"):
        step("B.set_lri", lambda: c.set_last_revision_info(op["lri"][0], op["lri"][1]))
    step("B.info", lambda: c.last_revision_info())
    step("B.dont_leave", lambda: c.dont_leave_lock_in_place())
    step("B.unlock", lambda: c.unlock())
    step("B.phys-end", lambda: c.get_physical_lock_status())
    r5 = step("A.lock-again", lambda: a.lock_write())
    if r5 is not None:
        out[-1] = ("A.lock-again", "ok", True)
        step("A.tags", lambda: sorted(a.tags.get_tag_dict().items()))
        step("A.unlock3", lambda: a.unlock())
    return out


def disk_lock_status(s, name):
    """(branch physically locked, repository physically locked) of branch `name`, read through fresh LOCAL objects."""
    from breezy.branch import Branch

    b = Branch.open(s.local_path(name))
    return (b.get_physical_lock_status(), b.repository.get_physical_lock_status())


def held_locks(s):
    """Relative paths of every LockDir under the twin's served / local-only trees that is held on disk right now."""
    out = []
    for top in ("srv", "ext"):
        base = os.path.join(s.root, top)
        for dp, dns, _fns in os.walk(base):
            if os.path.basename(dp) == "lock" and "held" in dns:
                out.append(os.path.relpath(dp, s.root))
                dns[:] = []
    return sorted(out)


def op_stale_lock(s, op):
    """A write lock left behind on disk by a third party with local access (a process that died, or
    lock_write / leave_lock_in_place / unlock) on the branch or on the repository; the actor under test then tries to
    lock / write through its own location (path or bzr://).  After every attempt the lock state on disk is read
    locally.  The third party finally takes its lock back with its token and releases it."""
    from breezy import errors
    from breezy.branch import Branch

    out = []
    name = op["b"]

    def step(label, f):
        try:
            r = f()
            out.append((label, "ok", r))
            return True
        except (Stuck, NeedsVfs):
            raise
        except errors.BzrError as e:
            if is_stuck(e) or (s.base_url and os.environ.get("BRZ_NO_SMART_VFS") and is_needs_vfs(e)):
                raise
            out.append((label, "err", type(e).__name__))
        except NotImplementedError:
            out.append((label, "err", "NotImplementedError"))
        return False

    hb = Branch.open(s.local_path(name))
    tok = None
    if op["what"] == "branch":
        tok = hb.lock_write().token
        hb.leave_lock_in_place()
        hb.unlock()
    else:
        tok = hb.repository.lock_write().repository_token
        if tok is not None:
            hb.repository.leave_lock_in_place()
        hb.repository.unlock()
    out.append(("planted", "ok", (tok is not None, disk_lock_status(s, name))))
    try:
        v = s.branch(name, op["slot"])
        for att in op["attempts"]:
            if att == "lock_write":
                def f():
                    v.lock_write()
                    v.unlock()
                    return "ACQUIRED"
            elif att == "lock_write_bogus":
                def f():
                    v.lock_write(token=b"bogus-token")
                    v.unlock()
                    return "ACQUIRED-WITH-BOGUS-TOKEN"
            elif att == "lock_read":
                def f():
                    with v.lock_read():
                        return v.last_revision_info()
            elif att == "tag_set":
                def f():
                    v.tags.set_tag(op["tag"], op["rev"])
                    return "SET"
            elif att == "set_lri":
                def f():
                    v.set_last_revision_info(*op["lri"])
                    return "SET"
            elif att == "repo_lock":
                def f():
                    r = v.repository
                    r.lock_write()
                    r.unlock()
                    return "LOCKED-AND-RELEASED"
            elif att == "repo_write":
                def f():
                    r = v.repository
                    with r.lock_write():
                        r.start_write_group()
                        try:
                            r.add_signature_text(op["sigrev"], op["text"])
                        except BaseException:
                            r.abort_write_group(suppress_errors=True)
                            raise
                        r.commit_write_group()
                    return "WRITTEN"
            else:
                raise AssertionError(att)
            step(att, f)
            n = 0
            while v.is_locked() and n < 8:
                v.unlock()
                n += 1
            out.append(("disk-locks-after:" + att, "ok", disk_lock_status(s, name)))
    finally:
        # the third party comes back for its lock (never break_lock)
        if tok is not None:
            hb2 = Branch.open(s.local_path(name))

            def release():
                if op["what"] == "branch":
                    hb2.lock_write(token=tok)
                    hb2.dont_leave_lock_in_place()
                    hb2.unlock()
                else:
                    hb2.repository.lock_write(token=tok)
                    hb2.repository.dont_leave_lock_in_place()
                    hb2.repository.unlock()
                return "RELEASED"

            step("owner-release", release)
    out.append(("disk-locks-end", "ok", disk_lock_status(s, name)))
    return out


# -- repository reads

def _repo(s, op):
    return s.branch(op["b"], op["slot"]).repository


def op_parent_map(s, op):
    r = _repo(s, op)
    with _lk(r, op.get("lk") or "r"):
        pm = r.get_parent_map(op["keys"])
        return sorted((k, tuple(v)) for k, v in pm.items())


def _rev_tuple(rev):
    return (rev.revision_id, tuple(rev.parent_ids), rev.message, rev.committer, rev.timestamp, rev.timezone,
            tuple(sorted(rev.properties.items())), rev.inventory_sha1)


def op_get_revision(s, op):
    r = _repo(s, op)
    with _lk(r, op.get("lk")):
        return _rev_tuple(r.get_revision(op["rev"]))


def op_get_revisions(s, op):
    r = _repo(s, op)
    with _lk(r, op.get("lk")):
        return [_rev_tuple(x) for x in r.get_revisions(op["revs"])]


def op_iter_revisions(s, op):
    r = _repo(s, op)
    with _lk(r, op.get("lk") or "r"):
        return sorted((k, None if v is None else _rev_tuple(v)) for k, v in r.iter_revisions(op["revs"]))


def op_rev_tree(s, op):
    r = _repo(s, op)
    with _lk(r, op.get("lk")):
        t = r.revision_tree(op["rev"])
        with t.lock_read():
            return (t.get_revision_id(), t.path2id(""), sorted(snap_tree(t).items()),
                    sorted((p, ie.revision) for p, ie in t.iter_entries_by_dir()))


def op_rev_trees(s, op):
    r = _repo(s, op)
    with _lk(r, op.get("lk") or "r"):
        out = []
        for t in r.revision_trees(op["revs"]):
            out.append((t.get_revision_id(), sorted(snap_tree(t).items())))
        return out


def op_files_bytes(s, op):
    r = _repo(s, op)
    with _lk(r, op.get("lk") or "r"):
        t = r.revision_tree(op["rev"])
        want = []
        with t.lock_read():
            for p, ie in t.iter_entries_by_dir():
                if ie.kind == "file":
                    want.append((ie.file_id, ie.revision, p))
        want = want[: op.get("n", 6)]
        got = sorted((ident, b"".join(chunks)) for ident, chunks in r.iter_files_bytes(want))
        return got


def op_all_revs(s, op):
    r = _repo(s, op)
    with _lk(r, op.get("lk")):
        return sorted(r.all_revision_ids())


def op_has_revs(s, op):
    r = _repo(s, op)
    with _lk(r, op.get("lk")):
        return (sorted(r.has_revisions(op["revs"])), [r.has_revision(x) for x in op["revs"]])


def op_stats(s, op):
    r = _repo(s, op)
    with _lk(r, op.get("lk")):
        st = dict(r.gather_stats(op.get("rev"), op.get("committers")))
        st.pop("size", None)
        if "firstrev" in st:
            # gather_stats reports the last revision of graph.iter_ancestry() as 'firstrev'; with merges in the ancestry that
            # depends on set iteration order inside one repository, so it is only comparable for linear histories
            with r.lock_read():
                linear = all(p is None or len(p) <= 1 for _r, p in r.get_graph().iter_ancestry([op["rev"]]))
            if not linear:
                st["firstrev"] = "not-comparable"
        return sorted(st.items())


def op_has_sig(s, op):
    r = _repo(s, op)
    with _lk(r, op.get("lk")):
        h = r.has_signature_for_revision_id(op["rev"])
        txt = r.get_signature_text(op["rev"]) if h else None
        return (h, txt)


def op_sig_text(s, op):
    r = _repo(s, op)
    with _lk(r, op.get("lk")):
        return r.get_signature_text(op["rev"])


def op_heads(s, op):
    r = _repo(s, op)
    with _lk(r, "r"):
        g = r.get_graph()
        return (sorted(g.heads(op["keys"])), sorted(g.find_unique_ancestors(op["keys"][0], op["keys"][1:])))


def op_revid_for_revno(s, op):
    r = _repo(s, op)
    with _lk(r, "r"):
        return r.get_rev_id_for_revno(op["revno"], tuple(op["known"]))


def op_delta(s, op):
    r = _repo(s, op)
    with _lk(r, "r"):
        d = r.get_revision_delta(op["rev"])
        return (sorted(c.path for c in d.added), sorted(c.path for c in d.removed), sorted(c.path for c in d.renamed),
                sorted(c.path for c in d.modified), sorted(c.path for c in d.kind_changed))


def op_sig_add(s, op):
    r = _repo(s, op)
    with r.lock_write():
        r.start_write_group()
        try:
            r.add_signature_text(op["rev"], op["text"])
        except BaseException:
            r.abort_write_group(suppress_errors=True)
            raise
        r.commit_write_group()
        return (r.has_signature_for_revision_id(op["rev"]), r.get_signature_text(op["rev"]))


def op_wg_abort(s, op):
    """A write group that is aborted must leave nothing behind."""
    r = _repo(s, op)
    with r.lock_write():
        r.start_write_group()
        try:
            r.add_signature_text(op["rev"], op["text"])
        finally:
            r.abort_write_group()
        return (r.has_signature_for_revision_id(op["rev"]), sorted(r.all_revision_ids()))


def op_pack(s, op):
    r = _repo(s, op)
    r.pack()
    with r.lock_read():
        return sorted(r.all_revision_ids())


# -- transfers

def op_fetch(s, op):
    into = s.branch(op["into"], op["slot"]).repository
    frm = s.branch(op["from"], op["slot"]).repository
    into.fetch(frm, revision_id=op.get("rev"), find_ghosts=bool(op.get("fg")))
    with into.lock_read():
        revs = sorted(into.all_revision_ids())
        pm = into.get_parent_map(revs)
        return (revs, sorted((k, tuple(v)) for k, v in pm.items()))


def _result_tuple(res):
    tc = getattr(res, "tag_conflicts", None)
    tu = getattr(res, "tag_updates", None)
    return (res.old_revno, res.old_revid, res.new_revno, res.new_revid,
            sorted(tc) if tc else [], sorted(tu.items()) if isinstance(tu, dict) else tu)


def op_pull(s, op):
    tgt = s.branch(op["into"], op["slot"])
    src = s.branch(op["from"], op["slot"])
    res = tgt.pull(src, overwrite=op.get("ow", False), stop_revision=op.get("stop"))
    return (_result_tuple(res), tgt.last_revision_info())


def op_push(s, op):
    src = s.branch(op["from"], op["slot"])
    tgt = s.branch(op["to"], op["slot"])
    res = src.push(tgt, overwrite=op.get("ow", False), stop_revision=op.get("stop"))
    return (_result_tuple(res), tgt.last_revision_info())


def op_push_new(s, op):
    from breezy.transport import get_transport

    src = s.branch(op["from"], op["slot"])
    t = get_transport(s.loc(op["new"]))
    kw = {}
    if op.get("stacked"):
        kw["stacked_on"] = "../" + op["stacked"]
    nb = src.create_clone_on_transport(t, revision_id=op.get("rev"), **kw)
    s.tracked.append(nb)
    with nb.lock_read():
        return (nb.last_revision_info(), sorted(nb.tags.get_tag_dict().items()),
                sorted(nb.repository.all_revision_ids()))


def op_sprout(s, op):
    from breezy.controldir import ControlDir

    cd = ControlDir.open(s.loc(op["from"]))
    dest = os.path.join(s.root, "ext", op["new"])
    ncd = cd.sprout(dest, revision_id=op.get("rev"))
    nb = ncd.open_branch()
    s.tracked.append(nb)
    try:
        s.tracked.append(cd.open_branch())
    except Exception:
        pass
    with nb.lock_read():
        return (nb.last_revision_info(), nb.get_parent(), sorted(nb.tags.get_tag_dict().items()),
                sorted(nb.repository.all_revision_ids()), sorted(snap_disk(dest).items()))


def op_commit(s, op):
    """Commit through a lightweight checkout whose branch reference points at s.loc(b)."""
    from breezy import errors
    from breezy.workingtree import WorkingTree

    co = os.path.join(s.root, "co", op["b"])
    out = []
    if not os.path.isdir(co):
        os.makedirs(os.path.dirname(co), exist_ok=True)
        b = s.open_branch(op["b"])
        b.create_checkout(co, lightweight=True)
        out.append("created")
    wt = WorkingTree.open(co)
    s.tracked.append(wt.branch)
    if op.get("update"):
        nconf = wt.update()
        out.append(("update", nconf))
        if wt.conflicts():
            gen.resolve_all(wt)
    if op.get("merge"):
        ob = s.branch(op["merge"], op["slot"])
        try:
            with wt.lock_write():
                wt.merge_from_branch(ob)
            gen.resolve_all(wt)
            out.append(("merged", tuple(wt.get_parent_ids())))
        except errors.BzrError as e:
            out.append(("merge-refused", type(e).__name__))
            wt = WorkingTree.open(co)
            s.tracked.append(wt.branch)
    gen._uniq[0] = op["uq"]
    import random

    log = []
    gen.random_delta(random.Random(op["seed"]), wt, gen.Names("quick"), op["nops"], None, log)
    out.append(("delta", len(log)))
    rid = wt.commit(op["msg"], rev_id=op["rev"], timestamp=op["ts"], timezone=op["tz"], committer=op["committer"],
                    allow_pointless=True)
    out.append((rid, wt.last_revision(), tuple(wt.get_parent_ids()), wt.branch.last_revision_info()))
    return out


OPS = {k[3:]: v for k, v in list(globals().items()) if k.startswith("op_")}
CONFIG_OPS = {"conf_set", "conf_get", "conf_remove", "push_loc_set", "push_loc_get"}
MUTATING = {"stale_lock", "tag_set", "tag_del", "conf_set", "conf_remove", "parent_set", "push_loc_set", "set_lri", "gen_rh",
            "lock_episode", "sig_add", "wg_abort", "pack", "fetch", "pull", "push", "push_new", "sprout", "commit"}


def classify_exc(e):
    """Name used to compare errors of the two sides."""
    return type(e).__name__


def is_stuck(e):
    return isinstance(e, (socket.timeout, TimeoutError))


CONNECTION_LOST = ("ConnectionResetError", "ConnectionReset", "ConnectionError", "SocketConnectionError", "BrokenPipeError",
                   "ConnectionAbortedError")


def mechanism(kind, op, lres, rres):
    """Mechanism key of a per-op mismatch (never contains generated values)."""
    lo = "ok" if lres[0] == "ok" else lres[1]
    ro = "ok" if rres[0] == "ok" else rres[1]
    if lo != "ok" or ro != "ok":
        if ro == "UnknownErrorFromSmartServer" and lo != "ok":
            return "error-not-translated:%s" % lo
        if ro == "KeyError" and "serializer_format_registry" in (rres[3] if len(rres) > 3 else ""):
            return "iter_revisions:inventory-format-number-not-a-revision-serializer"
        return "%s:%s-vs-%s" % (kind, lo, ro)
    lv, rv = lres[1], rres[1]
    if kind == "lock_episode":
        left = False
        for a, b in zip(lv, rv):
            if a[0] == "A.leave":
                left = True
            if a != b:
                if left and b[1] == "err" and b[2] == "LockContention" and a[0].startswith("B.lock_write"):
                    # the only lock that can still be held at this point is the repository's physical one
                    return "lock_episode:token-handover:repository-lock-left-in-place"
                if a[0] != b[0]:
                    return "lock_episode:diverges-before:%s" % a[0]
                return "lock_episode:%s:%s-vs-%s" % (a[0], a[2] if a[1] == "err" else "ok", b[2] if b[1] == "err" else "ok")
        return "lock_episode:length-differs"
    if kind == "stale_lock":
        for a, b in zip(lv, rv):
            if a != b:
                if a[0] != b[0]:
                    return "stale_lock:%s-lock:diverges-before:%s" % (op["what"], a[0])
                if a[0].startswith("disk-locks") and a[1] == b[1] == "ok":
                    att = a[0].split(":", 1)[1] if ":" in a[0] else "end"
                    (lb, lr), (rb, rr) = a[2], b[2]
                    if lb == rb and rr and not lr:
                        return "stale_lock:%s-lock:after-%s:repository-lock-left-held-on-served-twin" % (op["what"], att)
                    if lr == rr and rb and not lb:
                        return "stale_lock:%s-lock:after-%s:branch-lock-left-held-on-served-twin" % (op["what"], att)
                    return "stale_lock:%s-lock:after-%s:lock-state-on-disk-differs" % (op["what"], att)
                return "stale_lock:%s-lock:%s:%s-vs-%s" % (op["what"], a[0], a[2] if a[1] == "err" else "ok",
                                                           b[2] if b[1] == "err" else "ok")
        return "stale_lock:length-differs"
    if kind == "fetch":
        (lrevs, lpm), (rrevs, rpm) = lv, rv
        fg = "find_ghosts" if op.get("fg") else "plain"
        ls, rs = set(lrevs), set(rrevs)
        if ls != rs:
            if rs < ls:
                dl = dict(lpm)
                was_ghost = any(x in p for x in ls - rs for r_ in rs for p in [dl.get(r_, ())])
                return "fetch:%s:%s" % (fg, "ghost-filled-locally-not-through-server" if was_ghost
                                        else "revisions-missing-on-served-twin")
            if ls < rs:
                return "fetch:%s:extra-revisions-on-served-twin" % fg
            return "fetch:%s:revision-set-differs" % fg
        return "fetch:%s:parent-map-differs" % fg
    if kind == "parent_map":
        dl, dr = dict(lv), dict(rv)
        if set(dl) - set(dr) == {b"null:"} and not set(dr) - set(dl):
            return "parent_map:null-revision-omitted-when-asked-with-others"
        if set(dl) != set(dr):
            return "parent_map:key-set-differs"
        return "parent_map:parents-differ"
    if kind == "commit":
        for a, b in zip(lv, rv):
            if a != b:
                return "commit:%s-differs" % (a[0] if isinstance(a, tuple) and isinstance(a[0], str) else "result")
    return "%s:result-differs" % kind


def is_needs_vfs(e):
    if isinstance(e, AssertionError) and "vfs must be enabled" in str(e):
        return True
    n = type(e).__name__
    if n in ("DisabledMethod",):
        return True
    s = str(e)
    return "DisabledMethod" in s or "vfs must be enabled" in s


def run_op(side, op):
    """('ok', value) | ('err', class name); raises Stuck / NeedsVfs."""
    f = OPS[op["op"]]
    try:
        return ("ok", side.norm(f(side, op)))
    except (Stuck, NeedsVfs):
        raise
    except Exception as e:
        if is_stuck(e):
            raise Stuck(repr(e)) from e
        if side.base_url and os.environ.get("BRZ_NO_SMART_VFS") and is_needs_vfs(e):
            raise NeedsVfs(repr(e)[:200]) from e
        import traceback

        return ("err", classify_exc(e), side.norm(str(e))[:300], side.norm(traceback.format_exc()[-2500:]))
    finally:
        # an op that died half-way must not leave logical locks on the persistent handles
        for b in list(side.handles.values()):
            try:
                n = 0
                while b.is_locked() and n < 8:
                    b.unlock()
                    n += 1
            except BaseException:
                pass
