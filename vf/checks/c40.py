"""C40 - bundles and merge directives reproduce the revisions they carry.

One case = one generated history (renames of modified files, exec flips, symlinks and retargets, binary
contents, merges; time zones incl. negative sub-hour offsets; revision properties; revisions that REPLACE the
occupant of a path: entry removed and another renamed onto its path in one revision or across two, swaps,
re-adds - see _c40_replace) gathered into one repository R, then

 (1) bundles: (base, target) pairs - random ones plus the pairs whose delta replaces the occupant of a path -
     x formats {4, 0.9 (+ 0.8 on non-rich-root formats)}:
     write_bundle(R, target, base) -> read_bundle -> install_bundle into a twin repository that holds exactly
     ancestry(base) (sometimes more, sometimes of another repository format for v4).
     Oracle: the written revision set is ancestry(target) - ancestry(base) (plain set algebra over the
     recorded graph); the reader names the same target and revisions with the same metadata; after the
     installation every carried revision is present in the twin and its Testament / StrictTestament /
     StrictTestament3 TEXTS equal those computed in R.
 (2) merge directives: MergeDirective2.from_objects (bundle+patch / bundle / patch / plain, with the default base
     and with an explicit base_revision_id out of the revision's ancestry, as `send -r BASE..REV` gives) and the
     format-1 MergeDirective (0.9 bundle / diff / plain) -> to_lines -> from_lines: every field equal, serialisation
     idempotent, the explicit base recorded, an untampered preview patch verifies against the base the directive
     names; `merge <directive file>` into a copy of the submit branch gives the same working tree, pending merges
     and conflicts as `merge <source branch> -r revid:REV` (`-r revid:BASE..revid:REV` when the directive's base is
     not in the submit branch: a cherrypick) into another copy.
 (3) tampering: one byte flipped in the preview patch => get_merge_request reports 'failed' and the merge
     command warns "Preview patch does not match changes"; one character flipped in the base64 bundle of a
     directive, one byte flipped in a raw v4 bundle, one byte flipped in a 0.9 bundle (patch text, testament
     sha line, anywhere), the directive's testament_sha1 replaced => an error, or revisions whose strict
     testaments still equal the originals; never an installation that ends with a carried revision present
     under its id with a different testament.
"""
import base64
import logging
import os
import traceback
from io import BytesIO

ID = "C40"
LEVEL = "exploration"
TECHNIQUE = ("round-trip monitor: write_bundle -> read_bundle -> install into a twin holding ancestry(base), strict "
             "testament texts compared with the source repository; directive field equality through to_lines/from_lines; "
             "differential merge (directive file vs source branch); single-byte tampering must end in an error, an explicit "
             "mismatch report or identical testaments")
LEVEL_TEXT = ("generated histories (quick <= 8 revisions / 3 branches, thorough <= 16 / 4, plus up to 3 revisions that replace "
              "the occupant of a path) in 2a (mostly), 1.9-rich-root, rich-root-pack, pack-0.92, 1.9, knit; per history 2-5 random "
              "(base, target) pairs x every supported bundle format plus 2-5 pairs whose delta replaces a path's occupant x every "
              "patch format (v4 for half), every directive flavour incl. an explicit base, 1 differential merge, ~10 tampered payloads")
RULE = ("one evaluation = one (history, base, target, bundle format) installation judged, one directive flavour round-tripped, "
        "one differential merge, or one tampered payload judged; distinct = distinct (kind, revision texts carried, format / "
        "flavour / replacement class / tamper position class); non-trivial = the payload carries >= 2 revisions, a merge revision, or a tree with a "
        "symlink / executable / binary file")
CASES = {"quick": 32, "thorough": 400}
BUDGET_S = {"quick": 40, "thorough": 700}
MIN_EVALS = {"quick": 400, "thorough": 5000}
FLOORS = {"bundle_installed:4": 60, "bundle_installed:0.9": 60, "testament_compared": 300, "written_set_checked": 120,
          "reader_metadata_checked": 120, "directive_roundtrip": 60, "directive_patch_verified": 20, "merge_differential": 15,
          "tamper_patch_reported": 15, "tamper_judged": 100, "tamper_detected": 50,
          "replacement_delta_installed:patch-format": 30, "directive_explicit_base": 30}
EXHAUSTIVE = {"quick": False, "thorough": False}
RUST = ["breezy._patch_rs", "breezy._osutils_rs"]  # patch dates (directives) and high-resolution dates (0.8 / 0.9 bundles)
ASSUMPTIONS = [
    "the source repository's own testaments are the reference (C41 judges testaments); the revision graph used for the "
    "expected revision set is the one the generator recorded, not the repository's",
    "directive times are whole seconds and time zones whole minutes (what the patch date format can express)",
    "a flipped byte that leaves the decoded payload unchanged (base64 padding bits, line structure) is not a tamper and is discarded",
    "tamper verdict is by strict testament of the carried revisions: a flip that changes nothing a testament attests may install",
    "ghost parents are not generated",
    "an explicit directive base is a revision of the target revision's ancestry (what `send -r BASE..REV` names); the preview "
    "patch is judged by the directive's own verification against the base it records, not by a second diff implementation",
]

FORMATS = ["2a"] * 6 + ["1.9-rich-root", "rich-root-pack", "pack-0.92", "1.9", "knit"]
CROSS = {"pack-0.92": ["2a", "1.9-rich-root"], "1.9": ["1.9-rich-root", "2a"], "knit": ["2a"], "2a": ["1.9-rich-root"],
         "1.9-rich-root": ["2a"], "rich-root-pack": ["2a"]}
NULL = b"null:"


# ----------------------------------------------------------------------------- helpers

_CUR = {"case": None, "mismatch": None}


def kind_change_mismatch():
    """True if the last testament mismatch of a 0.8 / 0.9 bundle tree is about an entry whose KIND differs from the
    original's (same file id): these formats have no action for a kind change (file <-> symlink <-> directory under one
    file id), the reconstruction keeps the base tree's kind.  The statement's histories do not name kind changes; they
    arise here only when two branches gave one file id to entries of different kinds and were merged."""
    import re

    case, mm = _CUR["case"], _CUR["mismatch"]
    if case is None or not mm:
        return False
    rid, got = mm
    if isinstance(got, bytes):
        got = got.decode("utf-8", "replace")
    try:
        want = case.source_texts(rid, "version 3" in got.split("\n", 1)[0])
    except Exception:
        return False
    want = want["strict3" if "strict3" in want and "version 3" in got.split("\n", 1)[0] else "strict"]
    if isinstance(want, bytes):
        want = want.decode("utf-8", "replace")

    def kinds(text):
        out = {}
        for line in text.splitlines():
            if line.startswith("  "):
                tok = re.split(r"(?<!\\) ", line.strip())
                if len(tok) >= 3 and tok[0] in ("file", "directory", "symlink"):
                    out[tok[2]] = tok[0]
        return out

    a, b = kinds(got), kinds(want)
    return any(a[f] != b[f] for f in a if f in b)


def parent_kind_varies(msg):
    """The entry named in a BundleTree 'parent not directory' error sits, somewhere in this history, below a file id
    that is a directory in one revision and something else in another (the reconstruction kept the base tree's kind)."""
    import re

    case = _CUR["case"]
    m = re.search(r"b'((?:[^'\\]|\\.)*)'", msg)
    if case is None or not m:
        return False
    try:
        fid = eval("b'" + m.group(1) + "'").decode("utf-8", "replace")
    except Exception:
        return False
    return any(len(case.kinds_by_id.get(p, ())) > 1 for p in case.parents_of.get(fid, ()))


class EndlessRead(Exception):
    """The v4 container reader kept asking an exhausted source for more bytes (it would never return)."""


_EOF_LIMIT = 5000


def worker_init(tier):
    """Guards that turn a reader spinning on an exhausted source into an exception (the loop sits in native code and
    cannot be interrupted otherwise): the IterableFile and the BytesIO the v4 BundleReader wraps its input in."""
    from breezy import osutils
    from breezy.bzr.bundle.serializer import v4

    if getattr(v4.osutils, "_c40", False):
        return
    real = osutils.IterableFile
    from breezy.bzr.bundle import bundle_data

    orig_validate = bundle_data.BundleInfo._validate_revision

    def _validate_revision(self, tree, revision_id):
        try:
            return orig_validate(self, tree, revision_id)
        except Exception:
            try:  # what the 0.8 / 0.9 reader reconstructed, for the mechanism key (see kind_change_mismatch)
                _CUR["mismatch"] = (revision_id, self._testament(self.get_revision(revision_id), tree).as_text())
            except Exception:
                _CUR["mismatch"] = None
            raise

    bundle_data.BundleInfo._validate_revision = _validate_revision

    class GuardedIterableFile:
        _c40 = True

        def __init__(self, iterable):
            self._f = real(iterable)
            self._empty = 0

        def read(self, *a):
            r = self._f.read(*a)
            if r == b"" and a and a[0]:
                self._empty += 1
                if self._empty > _EOF_LIMIT:
                    raise EndlessRead("read(%r) at end of data asked %d times in a row" % (a[0], self._empty))
            else:
                self._empty = 0
            return r

        def __iter__(self):
            return iter(self._f)

        def __getattr__(self, name):
            return getattr(self._f, name)

    class GuardedBytesIO(BytesIO):
        def read(self, *a):
            r = BytesIO.read(self, *a)
            if r == b"" and a and a[0]:
                self._empty = getattr(self, "_empty", 0) + 1
                if self._empty > _EOF_LIMIT:
                    raise EndlessRead("read(%r) at end of data asked %d times in a row" % (a[0], self._empty))
            else:
                self._empty = 0
            return r

    class OsutilsForV4:
        """breezy.osutils as seen by the v4 serializer module only."""

        _c40 = True
        IterableFile = GuardedIterableFile

        def __getattr__(self, name):
            return getattr(osutils, name)

    v4.osutils = OsutilsForV4()
    v4.BytesIO = GuardedBytesIO


def where(e):
    from vf.runner import _where

    return _where(e.__traceback__)


def attempt(ctx, what, fn, detail=None):
    """Run an operation under test on an UNTAMPERED payload: an exception is an oracle failure (case goes on)."""
    try:
        return True, fn()
    except Exception as e:
        d = dict(detail or {})
        tb = traceback.format_exc()
        d["traceback"] = tb[-2500:]
        key = "%s:unexpected:%s@%s" % (what, type(e).__name__, where(e))
        if type(e).__name__ == "NoSuchFile" and "_write_delta" in tb and "old_tree.get_file_revision" in tb:
            # one mechanism wherever a 0.8 / 0.9 bundle is written (write_bundle, format-1 directives)
            key = "bundle-0.9:write:unchanged-child-of-renamed-directory"
        if type(e).__name__ == "TestamentMismatch" and kind_change_mismatch():
            key = "bundle-0.9:kind-change-not-representable"
        if type(e).__name__ == "InconsistentDelta" and "parent not directory" in str(e) and "_get_inventory" in tb and parent_kind_varies(str(e)):
            key = "bundle-0.9:kind-change-not-representable"
        _CUR["mismatch"] = None
        if isinstance(e, UnicodeDecodeError) and "_read_one_patch" in tb:
            key = "bundle-0.9:read:wrapped-action-line-splits-utf8"
        ctx.fail(key, repr(e)[:400], d)
        return False, None


def testament_texts(repo, rid, strict3):
    from breezy.bzr.testament import StrictTestament, StrictTestament3, Testament

    out = {"v1": Testament.from_revision(repo, rid).as_text(), "strict": StrictTestament.from_revision(repo, rid).as_text()}
    if strict3:
        out["strict3"] = StrictTestament3.from_revision(repo, rid).as_text()
    return out


def new_repo(ctx, fmt, tag="twin"):
    from breezy.controldir import ControlDir, format_registry

    d = ctx.tmp(tag)
    ControlDir.create(d, format=format_registry.make_controldir(fmt)).create_repository()
    return d


def open_repo(path):
    from breezy.repository import Repository

    return Repository.open(path)


def interesting(revs, rids):
    """Non-triviality of a carried revision set."""
    if len(rids) >= 2:
        return True
    for r in rids:
        if len(revs[r]["parents"]) > 1:
            return True
        for v in revs[r]["snap"].values():
            if v[0] == "symlink" or (v[0] == "file" and (v[2] or b"\x00" in (v[1] or b""))):
                return True
    return False


class Case:
    def __init__(self, ctx, h, repo_path, revs, fmt):
        self.ctx, self.h, self.repo_path, self.revs, self.fmt = ctx, h, repo_path, revs, fmt
        self.rich = open_repo(repo_path).supports_rich_root()
        self.bundle_formats = ["4", "0.9"] + ([] if self.rich else ["0.8"])
        self._texts = {}
        self.kinds_by_id, self.parents_of = {}, {}
        for r in revs.values():
            ids = r.get("ids") or {}
            for path, (fid, kind) in ids.items():
                self.kinds_by_id.setdefault(fid, set()).add(kind)
                par = path.rpartition("/")[0]
                if par in ids:
                    self.parents_of.setdefault(fid, set()).add(ids[par][0])

    def anc(self, rid):
        from vf.checks._c35_hist import ancestry

        return set() if rid in (None, NULL) else ancestry(self.h, rid)

    def source_texts(self, rid, strict3):
        k = (rid, strict3)
        if k not in self._texts:
            repo = open_repo(self.repo_path)
            with repo.lock_read():
                self._texts[k] = testament_texts(repo, rid, strict3)
        return self._texts[k]

    def twin(self, base, fmt=None, extra=None):
        """Fresh repository holding ancestry(base) (+ ancestry(extra))."""
        path = new_repo(self.ctx, fmt or self.fmt)
        src = open_repo(self.repo_path)
        for r in (base, extra):
            if r not in (None, NULL):
                open_repo(path).fetch(src, revision_id=r)
        return path

    def compare_installed(self, twin_path, rids, key, detail, strict3=True, count=True):
        """Every carried revision present with testament texts equal to the source's.  Returns number of differing."""
        ctx = self.ctx
        twin = open_repo(twin_path)
        bad = 0
        strict3 = strict3 and self.rich and twin.supports_rich_root()
        with twin.lock_read():
            for rid in sorted(rids):
                if not twin.has_revision(rid):
                    bad += 1
                    ctx.fail(key + ":revision-missing-after-install", "%s not present after a successful installation" % rid.decode(), detail)
                    continue
                try:
                    got = testament_texts(twin, rid, strict3)
                except Exception as e:
                    bad += 1
                    ctx.fail(key + ":installed-revision-unreadable:%s" % type(e).__name__, "%s: %r" % (rid.decode(), e), detail)
                    continue
                want = self.source_texts(rid, strict3)
                if count:
                    ctx.count("testament_compared")
                for cls in sorted(want):
                    if got[cls] != want[cls]:
                        bad += 1
                        d = dict(detail)
                        d["revision"] = rid.decode()
                        d["diff"] = [l for l in set(got[cls].splitlines()) ^ set(want[cls].splitlines())][:10]
                        ctx.fail(key + ":testament-differs:" + cls, "installed %s has another %s testament than the original" % (rid.decode(), cls), d)
                        break
        return bad


# ----------------------------------------------------------------------------- (1) bundles

def pick_pairs(rng, case, n):
    h = case.h
    pairs = []
    order = h.order
    for _ in range(n * 3):
        if len(pairs) >= n:
            break
        target = rng.choice(order[len(order) // 3:] or order)
        anc = sorted(case.anc(target) - {target})
        r = rng.random()
        if r < 0.25 or not anc:
            base = NULL
        elif r < 0.5:
            base = case.revs[target]["parents"][0] if case.revs[target]["parents"] else NULL
        elif r < 0.8:
            base = rng.choice(anc)
        else:
            others = [x for x in order if x not in case.anc(target)]
            base = rng.choice(others) if others else rng.choice(anc)
        if target in case.anc(base):
            continue  # nothing to carry
        if (base, target) not in pairs:
            pairs.append((base, target))
    return pairs


def bundle_roundtrip(case, rng, base, target, bfmt, tag=None):
    from breezy.bzr.bundle.apply_bundle import install_bundle
    from breezy.bzr.bundle.serializer import read_bundle, write_bundle

    ctx, revs = case.ctx, case.revs
    expected = case.anc(target) - case.anc(base)
    detail = {"base": base.decode(), "target": target.decode(), "bundle_format": bfmt, "repo_format": case.fmt,
              "carried": sorted(r.decode() for r in expected)}
    if tag is not None:
        detail["replacement_delta"] = tag
    key = "bundle-%s" % bfmt
    buf = BytesIO()
    ok, written = attempt(ctx, key + ":write", lambda: write_bundle(open_repo(case.repo_path), target, base, buf, format=bfmt), detail)
    if not ok:
        return None
    data = buf.getvalue()
    ctx.count("written_set_checked")
    ctx.check(set(written) == expected and len(written) == len(set(written)), key + ":written-revision-set",
              "write_bundle returned %r, ancestry(target)-ancestry(base) is %r" % (sorted(written), sorted(expected)), detail)
    ok, reader = attempt(ctx, key + ":read", lambda: read_bundle(BytesIO(data)), detail)
    if not ok:
        return data
    ok, info = attempt(ctx, key + ":reader-info", lambda: (reader.target, list(reader.real_revisions)), detail)
    if ok:
        ctx.count("reader_metadata_checked")
        rtarget, rrevs = info
        ctx.check(rtarget == target, key + ":reader-target", "reader.target %r, bundle written for %r" % (rtarget, target), detail)
        ctx.check({r.revision_id for r in rrevs} == expected, key + ":reader-revision-set",
                  "reader lists %r" % sorted(r.revision_id for r in rrevs), detail)
        src = open_repo(case.repo_path)
        for r in rrevs:
            if r.revision_id not in revs:
                continue
            o = src.get_revision(r.revision_id)
            for f in ("committer", "message", "timestamp", "timezone", "parent_ids", "properties"):
                a, b = getattr(r, f), getattr(o, f)
                if f == "parent_ids":
                    a, b = list(a), list(b)
                if f == "properties":
                    a, b = dict(a), dict(b)
                if a != b:
                    ctx.fail(key + ":reader-revision-field:" + f, "%s: bundle says %r, repository %r" % (r.revision_id.decode(), a, b), detail)
    # twin
    tfmt = case.fmt
    variant = "same-format"
    r = rng.random()
    extra = None
    if bfmt == "4" and r < 0.25 and CROSS.get(case.fmt):
        tfmt = rng.choice(CROSS[case.fmt])
        variant = "cross-format"
    elif r < 0.45 and len(expected) > 1:
        extra = rng.choice(sorted(expected - {target}))
        variant = "twin-has-some"
    ctx.hist("bundle:%s:%s" % (bfmt, variant))
    detail["twin_format"] = tfmt
    detail["variant"] = variant
    twin = case.twin(base, tfmt, extra)
    ok, _ = attempt(ctx, key + ":install" + ("" if tfmt == case.fmt else ":cross-format"),
                    lambda: install_bundle(open_repo(twin), read_bundle(BytesIO(data))), detail)
    if ok:
        ctx.count("bundle_installed:" + bfmt)
        if tag is not None:
            ctx.count("replacement_delta_installed" + ("" if bfmt == "4" else ":patch-format"))
            ctx.hist("bundle:%s:replacement:%s" % (bfmt, tag))
        case.compare_installed(twin, expected, key + (":cross-format" if tfmt != case.fmt else ""), detail, strict3=(tfmt == case.fmt))
    sig = ("bundle", bfmt, variant, tag, sorted((r, case.source_texts(r, False)["strict"]) for r in expected))
    ctx.note(sig, nontrivial=interesting(revs, expected),
             sample={"kind": "bundle", "format": bfmt, "repo_format": case.fmt, "base": base.decode(), "target": target.decode(),
                     "carried": len(expected), "bytes": len(data), "variant": variant})
    return data


# ----------------------------------------------------------------------------- (2) directives

class WarningTap(logging.Handler):
    def __init__(self):
        logging.Handler.__init__(self, logging.WARNING)
        self.msgs = []

    def emit(self, record):
        try:
            self.msgs.append(record.getMessage())
        except Exception:
            self.msgs.append(str(record.msg))


def run_merge(location, tree_path, extra=()):
    """`brz merge LOCATION -d TREE` in process.  Returns (outcome, warnings)."""
    from breezy import builtins, errors
    from breezy import option as _option
    from breezy import ui as _ui

    tap = WarningTap()
    lg = logging.getLogger("brz")
    lg.addHandler(tap)
    old = os.getcwd()
    try:
        _option._verbosity_level = 0
        cmd = builtins.cmd_merge()
        cmd._setup_outf = lambda: setattr(cmd, "outf", _ui.NullOutputStream("utf-8"))
        try:
            ret = cmd.run_argv_aliases([location, "-d", tree_path] + list(extra))
            outcome = "ok" if not ret else "ret%s" % ret
        except errors.BzrError as e:
            outcome = "refused:" + type(e).__name__
    finally:
        os.chdir(old)
        lg.removeHandler(tap)
    return outcome, tap.msgs


def tree_state(path):
    from breezy.workingtree import WorkingTree
    from vf.observe import snap_disk

    wt = WorkingTree.open(path)
    with wt.lock_read():
        return {"disk": snap_disk(path), "parents": list(wt.get_parent_ids()),
                "conflicts": sorted(str(c) for c in wt.conflicts())}


FIELDS2 = ("revision_id", "testament_sha1", "time", "timezone", "target_branch", "source_branch", "message", "base_revision_id",
           "patch", "bundle", "patch_type")
FIELDS1 = ("revision_id", "testament_sha1", "time", "timezone", "target_branch", "source_branch", "message", "patch", "patch_type")
MESSAGES = [None, "merge this please", "Multi\nline message", "unicodé mességé ✓", "x" * 100, "colon: inside", "  indented"]


def directives(case, rng):
    """Round trips, one differential merge, tampering.  Needs two branches whose tips are not ancestors of each other."""
    from breezy import merge_directive as md_mod
    from breezy.branch import Branch

    ctx, h, revs = case.ctx, case.h, case.revs
    tips = {}
    for rid in h.order:
        tips[h.recorded[rid]["branch"]] = rid
    names = sorted(tips)
    rng.shuffle(names)
    pair = None
    for s in names:
        for t in names:
            if s != t and tips[t] not in case.anc(tips[s]):
                pair = (s, t)
                break
        if pair:
            break
    if pair is None:
        # every branch is merged into every other: submit to a copy of the newest branch as it was some revisions ago
        tname = h.recorded[h.order[-1]]["branch"]
        tt = tips[tname]
        behind = sorted(case.anc(tt) - {tt})
        if not behind:
            ctx.hist("directive:single-revision-history")
            return
        ts = rng.choice(behind)
        sname = "submit"
        h.trees[sname] = os.path.join(h.root, sname)
        Branch.open(h.trees[tname]).controldir.sprout(h.trees[sname], revision_id=ts)
        ctx.hist("directive:submit-branch-behind")
    else:
        sname, tname = pair
        ts, tt = tips[sname], tips[tname]
        ctx.hist("directive:submit-branch-diverged")
    submit = Branch.open(h.trees[sname])
    src_url = Branch.open(h.trees[tname]).base
    when = 1500100000 + rng.randint(0, 10 ** 6)
    from vf.checks._c35_hist import TZS

    tz = rng.choice(TZS)
    made = []
    carried = case.anc(tt) - case.anc(ts)
    flavours = [("bundle+patch", True, True), ("bundle", False, True), ("patch", True, False), ("plain", False, False)]
    quick = ctx.tier == "quick"
    if quick:
        flavours = [flavours[0]] + rng.sample(flavours[1:], 1)
    flavours = [f + (None,) for f in flavours]
    # an explicit base for the preview patch (`send -r BASE..REV`): a revision of REV's ancestry, mostly one the submit
    # branch does not have (later than the common ancestor), sometimes one it has (the common ancestor or earlier)
    later = sorted(carried - {tt})
    older = sorted(case.anc(tt) - carried)
    explicit = [("bundle+patch@base", True, True), ("patch@base", True, False)]
    for fl, inc_patch, inc_bundle in (rng.sample(explicit, 1) if quick else explicit):
        pool = later if later and (not older or rng.random() < 0.7) else older
        if pool:
            flavours.append((fl, inc_patch, inc_bundle, rng.choice(pool)))
    for fl, inc_patch, inc_bundle, xbase in flavours:
        msg = rng.choice(MESSAGES)
        detail = {"flavour": "v2:" + fl, "revision": tt.decode(), "submit_tip": ts.decode(), "message": msg, "timezone": tz, "repo_format": case.fmt}
        kw = {}
        if xbase is not None:
            kw["base_revision_id"] = xbase
            detail["explicit_base"] = xbase.decode()
            detail["base_in_submit_branch"] = xbase in case.anc(ts)
        ok, md = attempt(ctx, "directive2:from_objects", lambda: md_mod.MergeDirective2.from_objects(
            repository=open_repo(case.repo_path), revision_id=tt, time=when, timezone=tz, target_branch=submit.base,
            include_patch=inc_patch, include_bundle=inc_bundle, local_target_branch=Branch.open(h.trees[sname]),
            public_branch=None if inc_bundle and rng.random() < 0.5 else src_url, message=msg, **kw), detail)
        if ok:
            if xbase is not None:
                ctx.count("directive_explicit_base")
                ctx.hist("directive:explicit-base:" + ("in-submit-branch" if xbase in case.anc(ts) else "later-than-common-ancestor"))
                ctx.check(md.base_revision_id == xbase, "directive:explicit-base-not-recorded",
                          "from_objects(base_revision_id=%r) made a directive with base_revision_id %r" % (xbase, md.base_revision_id), detail)
            made.append(("v2:" + fl, md, FIELDS2, detail))
    v1 = [("bundle", "bundle"), ("diff", "diff"), ("plain", None)]
    for fl, ptype in (rng.sample(v1, 1) if quick else v1):
        msg = rng.choice(MESSAGES)
        detail = {"flavour": "v1:" + fl, "revision": tt.decode(), "submit_tip": ts.decode(), "message": msg, "timezone": tz, "repo_format": case.fmt}
        def make1():
            repo = open_repo(case.repo_path)
            with repo.lock_write():  # the format-1 constructor leaves locking to its caller (cmd_send holds the lock)
                return md_mod.MergeDirective.from_objects(
                    repo, tt, when, tz, submit.base, patch_type=ptype, local_target_branch=Branch.open(h.trees[sname]),
                    public_branch=None if ptype == "bundle" and rng.random() < 0.5 else src_url, message=msg)

        ok, md = attempt(ctx, "directive1:from_objects", make1, detail)
        if ok:
            made.append(("v1:" + fl, md, FIELDS1, detail))
    parsed = {}
    for fl, md, fields, detail in made:
        ok, lines = attempt(ctx, "directive:to_lines", lambda: md.to_lines(), detail)
        if not ok:
            continue
        ok, back = attempt(ctx, "directive:from_lines", lambda: md_mod.MergeDirective.from_lines(list(lines)), detail)
        if not ok:
            continue
        ctx.count("directive_roundtrip")
        ctx.hist("directive:" + fl)
        if not ctx.check(type(back) is type(md), "directive:class-changes", "%s parsed back as %s" % (type(md).__name__, type(back).__name__), detail):
            continue
        differs = []
        for f in fields:
            a, b = getattr(md, f), getattr(back, f)
            if fl == "v1:diff" and md.patch == b"" and f in ("patch", "patch_type") and b is None:
                # format 1 has no marker for "a patch follows": an empty diff (the carried revisions change no tree
                # content) is indistinguishable from no patch.  Not a field the statement can mean; counted, not judged.
                ctx.hist("directive:v1:empty-diff-parsed-as-no-patch")
                continue
            if a != b:
                differs.append(f)
        date_fields = [f for f in differs if f in ("time", "timezone")]
        if date_fields:
            d = dict(detail)
            d["written"] = [md.time, md.timezone]
            d["parsed"] = [back.time, back.timezone]
            sub = ":negative-subhour-offset" if md.timezone < 0 and md.timezone % 3600 else ""
            ctx.fail("directive:patch-date-differs" + sub, "(time, timezone) %r parsed back as %r" % (d["written"], d["parsed"]), d)
        for f in differs:
            if f in date_fields:
                continue
            a, b = getattr(md, f), getattr(back, f)
            d = dict(detail)
            d["field"] = f
            d["written"] = repr(a)[:300]
            d["parsed"] = repr(b)[:300]
            ctx.fail("directive:field-differs:%s:%s" % (fl.split(":")[0], f), "%s: %r -> %r" % (f, a if f not in ("patch", "bundle") else "...", b if f not in ("patch", "bundle") else "..."), d)
        if not differs:
            ok, again = attempt(ctx, "directive:to_lines-again", lambda: back.to_lines(), detail)
            if ok:
                ctx.count("directive_idempotent")
                ctx.check(again == lines, "directive:serialisation-not-idempotent", "to_lines(from_lines(to_lines(d))) differs", detail)
        parsed[fl] = (back, lines, detail)
        ctx.note(("directive", fl, sorted((r, case.source_texts(r, False)["strict"]) for r in carried), md.message, tz),
                 nontrivial=interesting(revs, carried),
                 sample={"kind": "directive", "flavour": fl, "revision": tt.decode(), "carried": len(carried), "lines": len(lines), "timezone": tz})
        if fl.startswith("v2") and back.patch is not None:
            ok, ver = attempt(ctx, "directive:verify", lambda: back.get_merge_request(open_repo(case.repo_path))[2], detail)
            if ok:
                ctx.count("directive_patch_verified")
                ctx.check(ver == "verified", "directive:untampered-patch-not-verified", "get_merge_request says %r for an untampered preview patch" % ver, detail)
        # installing from the parsed directive
        if back.patch_type == "bundle":
            twin = case.twin(ts)
            ok, _ = attempt(ctx, "directive:install_revisions", lambda: back.install_revisions(open_repo(twin)), detail)
            if ok:
                ctx.count("directive_installed")
                case.compare_installed(twin, carried, "directive:" + fl.split(":")[0], detail)
    # differential merge: directive file vs branch
    if parsed:
        fl = rng.choice(sorted(parsed))
        back, lines, detail = parsed[fl]
        a = ctx.tmp("mergeA")
        b = ctx.tmp("mergeB")
        for d in (a, b):
            os.rmdir(d)
            Branch.open(h.trees[sname]).controldir.sprout(d)
        f = os.path.join(ctx.tmp("md"), "directive.patch")
        with open(f, "wb") as fh:
            fh.writelines(lines)
        ok, ra = attempt(ctx, "merge:from-directive", lambda: run_merge(f, a), detail)
        # a directive whose base the target branch does not have is merged as a cherrypick BASE..REV (Merger.from_mergeable)
        cherry = detail.get("explicit_base") is not None and not detail["base_in_submit_branch"]
        rev_arg = "revid:%s..revid:%s" % (detail["explicit_base"], tt.decode()) if cherry else "revid:" + tt.decode()
        if cherry:
            ctx.count("merge_differential_cherrypick")
        ok2, rb = attempt(ctx, "merge:from-branch", lambda: run_merge(h.trees[tname], b, ["-r", rev_arg]), detail)
        if ok and ok2:
            ctx.count("merge_differential")
            ctx.hist("merge:%s:%s/%s" % (fl, ra[0], rb[0]))
            sa, sb = tree_state(a), tree_state(b)
            d = dict(detail)
            d["outcomes"] = [ra[0], rb[0]]
            if ra[0] == "refused:TestamentMismatch" and rb[0] != ra[0] and kind_change_mismatch():
                ctx.fail("bundle-0.9:kind-change-not-representable", "merge from directive: %s, from branch: %s" % (ra[0], rb[0]), d)
            else:
                ctx.check(ra[0] == rb[0], "merge:outcome-differs", "merge from directive: %s, from branch: %s" % (ra[0], rb[0]), d)
            _CUR["mismatch"] = None
            if ra[0] == rb[0]:
                for part in ("disk", "parents", "conflicts"):
                    if sa[part] != sb[part]:
                        d2 = dict(d)
                        if part == "disk":
                            d2["diff"] = sorted(repr(x)[:200] for x in set(sa[part].items()) ^ set(sb[part].items()))[:8]
                        else:
                            d2["diff"] = [repr(sa[part]), repr(sb[part])]
                        ctx.fail("merge:%s-differs" % part, "merging the directive and merging the branch leave different %s" % part, d2)
            ctx.check(not any("does not match" in m for m in ra[1]), "merge:untampered-directive-reported-mismatch",
                      "merge warned about the preview patch of an untampered directive", d)
            ctx.note(("merge", fl, sorted((r, case.source_texts(r, False)["strict"]) for r in carried), case.source_texts(ts, False)["strict"]),
                     nontrivial=True, sample={"kind": "merge", "flavour": fl, "outcome": ra[0], "conflicts": len(sa["conflicts"])})
    tamper_directives(case, rng, parsed, carried, ts, tt, sname)


# ----------------------------------------------------------------------------- (3) tampering

B64 = b"ABCDEFGHIJKLMNOPQRSTUVWXYZabcdefghijklmnopqrstuvwxyz0123456789+/"
ALNUM = b"abcdefghijklmnopqrstuvwxyz0123456789"


def flip(data, pos, alphabet=None, rng=None):
    c = data[pos:pos + 1]
    if alphabet is None:
        n = bytes([c[0] ^ (1 << rng.randrange(8))])
    else:
        n = c
        while n == c:
            n = bytes([rng.choice(alphabet)])
    return data[:pos] + n + data[pos + 1:]


def judge_tampered_install(case, what, klass, install, twin, carried, detail):
    """install() on a tampered payload: error, or identical revisions.  Returns outcome class."""
    ctx = case.ctx
    try:
        install()
    except EndlessRead as e:
        ctx.count("tamper_judged")
        ctx.hist("tamper:%s:%s:never-terminates" % (what, klass))
        ctx.fail("tamper:bundle-4:reader-never-terminates", "reading the tampered payload (%s) never ends: %s" % (what, e), detail)
        out = "never-terminates"
    except Exception as e:
        ctx.count("tamper_judged")
        ctx.count("tamper_detected")
        ctx.hist("tamper:%s:%s:error:%s" % (what, klass, type(e).__name__))
        out = "error"
    else:
        ctx.count("tamper_judged")
        tw = open_repo(twin)
        bad = 0
        strict3 = case.rich and tw.supports_rich_root()
        with tw.lock_read():
            for rid in sorted(carried):
                if not tw.has_revision(rid):
                    continue
                try:
                    got = testament_texts(tw, rid, strict3)
                except Exception as e:
                    bad += 1
                    ctx.fail("tamper:%s:%s:installed-revision-unreadable" % (what, klass), "%s after a silent installation: %r" % (rid.decode(), e), detail)
                    continue
                want = case.source_texts(rid, strict3)
                for cls in ("strict3", "strict"):
                    if cls in want and got[cls] != want[cls]:
                        bad += 1
                        d = dict(detail)
                        d["revision"] = rid.decode()
                        d["diff"] = [l for l in set(got[cls].splitlines()) ^ set(want[cls].splitlines())][:10]
                        ctx.fail("tamper:%s:%s:silently-different-revision" % (what, klass),
                                 "tampered payload installed without error and %s now has another %s testament" % (rid.decode(), cls), d)
                        break
        out = "silent-different" if bad else "harmless"
        ctx.hist("tamper:%s:%s:%s" % (what, klass, out))
    ctx.note(("tamper", what, klass, out, detail.get("position_class")), nontrivial=True,
             sample={"kind": "tamper", "what": what, "class": klass, "outcome": out})
    return out


def tamper_directives(case, rng, parsed, carried, ts, tt, sname):
    from breezy import merge_directive as md_mod
    from breezy.branch import Branch

    ctx, h = case.ctx, case.h
    # preview patch
    for fl in ("v2:bundle+patch", "v2:patch", "v2:bundle+patch@base", "v2:patch@base"):
        if fl not in parsed:
            continue
        back, lines, detail = parsed[fl]
        patch = back.patch
        cands = [i for i in range(len(patch)) if patch[i:i + 1].isalnum() and patch[i:i + 1].isascii()]
        # content lines only ("+x" / "-x" / " x"): header lines carry labels the verification also regenerates
        if not cands:
            ctx.hist("tamper:patch:empty")
            continue
        for _ in range(2):
            pos = rng.choice(cands)
            tampered = flip(patch, pos, ALNUM + ALNUM.upper(), rng)
            body = b"".join(lines)
            i = body.index(b"# Begin patch\n") + len(b"# Begin patch\n")
            tl = (body[:i] + tampered + body[i + len(patch):]).splitlines(True)
            d = dict(detail)
            d["tamper"] = "patch byte %d %r -> %r" % (pos, patch[pos:pos + 1], tampered[pos:pos + 1])
            try:
                t = md_mod.MergeDirective.from_lines(tl)
                ver = t.get_merge_request(open_repo(case.repo_path))[2]
            except Exception as e:
                ctx.count("tamper_patch_reported")
                ctx.hist("tamper:patch:error:%s" % type(e).__name__)
                continue
            ctx.count("tamper_patch_reported")
            ctx.hist("tamper:patch:%s" % ver)
            ctx.check(ver == "failed", "tamper:patch:not-reported", "a preview patch with one changed character is reported %r" % ver, d)
            ctx.note(("tamper", "patch", fl, ver), nontrivial=True, sample={"kind": "tamper", "what": "patch", "outcome": ver})
        # through the command: the explicit report
        if rng.random() < 0.5:
            pos = rng.choice(cands)
            tampered = flip(patch, pos, ALNUM + ALNUM.upper(), rng)
            body = b"".join(lines)
            i = body.index(b"# Begin patch\n") + len(b"# Begin patch\n")
            f = os.path.join(ctx.tmp("mdt"), "tampered.patch")
            with open(f, "wb") as fh:
                fh.write(body[:i] + tampered + body[i + len(patch):])
            a = ctx.tmp("mergeT")
            os.rmdir(a)
            Branch.open(h.trees[sname]).controldir.sprout(a)
            try:
                outcome, warns = run_merge(f, a)
            except Exception as e:
                ctx.hist("tamper:patch:command-error:%s" % type(e).__name__)
            else:
                ctx.count("tamper_patch_command")
                ctx.check(outcome.startswith("refused") or any("does not match" in m for m in warns), "tamper:patch:command-silent",
                          "merge of a directive with a tampered preview patch neither failed nor warned (outcome %s)" % outcome,
                          dict(detail, warnings=warns[:5]))
    # base64 bundle of a v2 directive
    for fl in ("v2:bundle+patch", "v2:bundle"):
        if fl not in parsed:
            continue
        back, lines, detail = parsed[fl]
        raw = base64.b64decode(back.bundle)
        cands = [i for i, c in enumerate(back.bundle) if c in B64]
        for _ in range(2):
            pos = rng.choice(cands)
            tb = flip(back.bundle, pos, B64, rng)
            try:
                if base64.b64decode(tb) == raw:
                    ctx.hist("tamper:b64:not-a-change")
                    continue
            except Exception:
                pass
            t = md_mod.MergeDirective2(revision_id=back.revision_id, testament_sha1=back.testament_sha1, time=back.time, timezone=back.timezone,
                                       target_branch=back.target_branch, patch=back.patch, source_branch=None, message=back.message, bundle=tb,
                                       base_revision_id=back.base_revision_id)
            twin = case.twin(ts)
            d = dict(detail, position_class="b64:%d/%d" % (pos * 10 // len(tb), 10))
            judge_tampered_install(case, "directive-b64-bundle", "v4", lambda: md_mod.MergeDirective.from_lines(t.to_lines()).install_revisions(open_repo(twin)), twin, carried, d)
    # the directive's own testament sha
    for fl in ("v2:bundle", "v1:bundle"):
        if fl not in parsed:
            continue
        back, lines, detail = parsed[fl]
        body = b"".join(lines)
        sha = back.testament_sha1
        if sha not in body:
            continue
        pos = rng.randrange(len(sha))
        tsha = flip(sha, pos, b"0123456789abcdef", rng)
        tl = body.replace(sha, tsha, 1).splitlines(True)
        twin = case.twin(ts)
        d = dict(detail, position_class="directive-testament-sha")

        def inst():
            t = md_mod.MergeDirective.from_lines(tl)
            if t.testament_sha1 != tsha:
                raise AssertionError("tampered sha not parsed back")
            t.install_revisions(open_repo(twin))

        judge_tampered_install(case, "directive-testament-sha", fl.split(":")[0], inst, twin, carried, d)


def tamper_bundles(case, rng, bundles):
    """bundles: list of (bfmt, base, target, data)."""
    from breezy.bzr.bundle.apply_bundle import install_bundle
    from breezy.bzr.bundle.serializer import read_bundle

    ctx = case.ctx
    for bfmt, base, target, data in bundles:
        carried = case.anc(target) - case.anc(base)
        detail = {"base": base.decode(), "target": target.decode(), "bundle_format": bfmt, "repo_format": case.fmt}
        head_end = data.index(b"\n") + 1
        if bfmt == "4":
            choices = [("anywhere", None), ("truncated", "cut")]
        else:
            choices = [("anywhere", None), ("sha-line", b"# sha1: "), ("patch-text", b"\n+"), ("message", b"# message:\n#   "), ("revision-id", b"# revision id: ")]
            rng.shuffle(choices)
            choices = choices[:2] + [("truncated", "cut")]
        for klass, marker in choices:
            if marker == "cut":
                pos = rng.randrange(head_end + 1, max(head_end + 2, len(data) - 2))
                t = data[:pos]
            elif marker is None:
                pos = rng.randrange(head_end, len(data))
                t = flip(data, pos, None, rng)
            else:
                idxs = []
                i = data.find(marker)
                while i != -1:
                    idxs.append(i)
                    i = data.find(marker, i + 1)
                if not idxs:
                    continue
                i = rng.choice(idxs) + len(marker)
                eol = data.find(b"\n", i)
                span = [j for j in range(i, eol if eol != -1 else len(data)) if data[j:j + 1].isalnum()]
                if not span:
                    continue
                pos = rng.choice(span)
                t = flip(data, pos, b"0123456789abcdef" if klass == "sha-line" else ALNUM, rng)
            if t == data:
                continue
            twin = case.twin(base)
            d = dict(detail, position_class=klass, tamper=("cut after %d of %d bytes" % (pos, len(data))) if marker == "cut" else
                     "byte %d %r -> %r" % (pos, data[pos:pos + 1], t[pos:pos + 1]))
            judge_tampered_install(case, "bundle-" + bfmt, klass, lambda: install_bundle(open_repo(twin), read_bundle(BytesIO(t))), twin, carried, d)


# ----------------------------------------------------------------------------- case

def case(ctx):
    from vf.checks import _c35_hist as H
    from vf.checks import _c40_replace as R
    from vf.observe import snap_tree, strip_ids

    from vf import gen

    gen._uniq[0] = 0  # content markers restart per case: a case replays alone exactly as it ran inside a shard
    rng = ctx.rng
    thorough = ctx.tier != "quick"
    fmt = rng.choice(FORMATS)
    nrevs = rng.randint(3, 8) if not thorough else rng.randint(3, 16)
    names = H.GitNames(ctx.tier)
    rstate = R.State()
    plain_extras = H.extra_edits

    def extras_with_replacements(rng_, wt, names_, log, *a, **kw):
        # the shared builder calls its module-level extra_edits once per ordinary revision, just before the commit
        plain_extras(rng_, wt, names_, log, *a, **kw)
        R.maybe(rng_, wt, names_, log, rstate)

    try:
        H.extra_edits = extras_with_replacements
        try:
            h = H.build(ctx, rng, fmt, nrevs=nrevs, nbranches=3 if not thorough else 4, names=names, weights=H.WEIGHTS)
        finally:
            H.extra_edits = plain_extras
        R.ensure(h, rng, names, rstate)
        repo = H.gather(h)
    except Exception as e:
        ctx.discard("history-construction:%s" % type(e).__name__)
    for mode, _e, _rid in R.committed(h):
        ctx.hist("replacement-delta:" + mode)
    ctx.hist("format:" + fmt)
    ctx.info["format"] = fmt
    ctx.info["log"] = h.log[-60:]
    revs = {}
    with repo.lock_read():
        for rid in h.order:
            full = snap_tree(repo.revision_tree(rid))
            revs[rid] = {"snap": strip_ids(full), "parents": list(h.recorded[rid]["parents"]),
                         "ids": {p: (v[3], v[0]) for p, v in full.items()}}
            ctx.hist("tz:%d" % h.recorded[rid]["timezone"])
    del repo
    c = Case(ctx, h, h.trees["b0"], revs, fmt)
    _CUR["case"], _CUR["mismatch"] = c, None
    cwd = os.getcwd()
    os.chdir(ctx.tmp("cwd"))
    try:
        bundles = []
        pairs = [(None, b, t) for b, t in pick_pairs(rng, c, 2 if not thorough else 5)]
        # bundles whose delta replaces the occupant of a path (see _c40_replace): every patch format, v4 for half of them
        directed = [d for d in R.directed_pairs(h) if (d[1], d[2]) not in [(b, t) for _, b, t in pairs]]
        rng.shuffle(directed)
        directed.sort(key=lambda d: d[0] not in ("replace", "free+fill"))  # the two classes only this workload reaches first
        pairs += directed[:2 if not thorough else 5]
        for tag, base, target in pairs:
            for bfmt in c.bundle_formats:
                if tag is not None and bfmt == "4" and rng.random() < 0.5:
                    continue
                data = bundle_roundtrip(c, rng, base, target, bfmt, tag)
                if data is not None and tag is None and rng.random() < 0.5:
                    bundles.append((bfmt, base, target, data))
        tamper_bundles(c, rng, bundles[:2] if not thorough else bundles[:5])
        directives(c, rng)
    finally:
        _CUR["case"] = None
        os.chdir(cwd)
