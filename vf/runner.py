"""Check runner: shards cases over worker subprocesses, merges what the monitors
observed, classifies oracle failures against known_findings.json, writes the
evidence file and prints the verdict lines.

A check module (vf/checks/cNN.py) provides:
  ID, LEVEL, RULE, TECHNIQUE (str)
  CASES = {"quick": n, "thorough": m}      number of case indices
  BUDGET_S = {"quick": s, "thorough": s}   soft per-worker deadline (seconds)
  MIN_EVALS = {"quick": n, "thorough": m}  floor on evaluations (else inconclusive)
  FLOORS = {monitor_name: min_count}       floor per monitor counter (optional)
  RUST = ["breezy._x_rs", ...]             crates to rebuild + load fresh (optional)
  ASSUMPTIONS = [str, ...]
  def case(ctx): run one case (may record many evaluations)
  def worker_init(tier): optional, once per worker after boot
"""
import hashlib
import importlib
import json
import os
import random
import subprocess
import sys
import time
import traceback

from . import boot

VERIF = boot.VERIF
EXIT_HELD, EXIT_VIOLATED, EXIT_INCONCLUSIVE = 0, 1, 2


class Discard(Exception):
    """The generated case is outside the property's input class; not a verdict."""


class OracleFailure(Exception):
    """Raised by ctx.fail(..., stop=True) to abandon the case after recording."""


def case_rng(check_id, tier, seed, index):
    h = hashlib.sha256(("%s:%s:%d:%d" % (check_id, tier, seed, index)).encode()).digest()
    return random.Random(int.from_bytes(h[:8], "big"))


def _sig(obj):
    if not isinstance(obj, (bytes, str)):
        obj = json.dumps(obj, sort_keys=True, default=repr)
    if isinstance(obj, str):
        obj = obj.encode("utf-8", "surrogateescape")
    return hashlib.blake2b(obj, digest_size=8).hexdigest()


class Ctx:
    """Per-case recording context handed to check.case()."""

    def __init__(self, acc, check_id, tier, seed, index):
        self.acc = acc
        self.check_id = check_id
        self.tier = tier
        self.seed = seed
        self.index = index
        self.rng = case_rng(check_id, tier, seed, index)
        self._dirs = []
        self.replaying = False
        self.info = {}  # attached to the detail of every failure of this case (e.g. the op program so far)

    # -- observation counters
    def count(self, monitor, n=1):
        self.acc["monitors"][monitor] = self.acc["monitors"].get(monitor, 0) + n

    def hist(self, key, n=1):
        key = str(key)
        self.acc["hist"][key] = self.acc["hist"].get(key, 0) + n

    def note(self, sig, nontrivial=True, sample=None):
        """One evaluation (one execution judged by the oracle)."""
        self.acc["evaluations"] += 1
        if nontrivial:
            self.acc["sigs"].add(_sig(sig))
        if sample is not None and len(self.acc["samples"]) < 4:
            self.acc["samples"].append(sample)

    def distinct(self, family, sig):
        """Count a distinct observed thing (state, interleaving, crash state...)."""
        self.acc["distinct"].setdefault(family, set()).add(_sig(sig))

    # -- verdicts
    def fail(self, key, msg, detail=None, stop=False):
        """An oracle failed. key is a *mechanism* key (no seeds, no random values)."""
        if self.info:
            detail = dict(detail or {}) if isinstance(detail, dict) or detail is None else {"detail": detail}
            try:
                detail["info"] = json.loads(json.dumps(self.info, default=repr))
            except Exception:
                detail["info"] = repr(self.info)[:4000]
        f = {"key": "%s:%s" % (self.check_id, key), "msg": str(msg)[:2000],
             "detail": detail, "case": self.index}
        fl = self.acc["failures"]
        nsame = sum(1 for x in fl if x["key"] == f["key"])
        self.acc["fail_counts"][f["key"]] = self.acc["fail_counts"].get(f["key"], 0) + 1
        if nsame < 3 and len(fl) < 60:
            fl.append(f)
        if stop:
            raise OracleFailure(key)

    def check(self, cond, key, msg, detail=None, stop=False):
        if not cond:
            self.fail(key, msg, detail, stop=stop)
        return cond

    def discard(self, reason):
        raise Discard(reason)

    # -- scratch
    def tmp(self, tag="t"):
        d = boot.fresh_dir(tag)
        self._dirs.append(d)
        return d

    def cleanup(self):
        for d in self._dirs:
            boot.rm(d)
        self._dirs = []


def new_acc():
    return {"evaluations": 0, "sigs": set(), "samples": [], "monitors": {}, "hist": {},
            "distinct": {}, "failures": [], "fail_counts": {}, "discards": {},
            "cases_run": 0, "cases_planned": 0, "errors": []}


def _where(tb):
    """module.function of the innermost frame inside breezy (mechanism key part)."""
    best = None
    for fs in traceback.extract_tb(tb):
        fn = fs.filename
        if "/breezy/" in fn and "/vf/" not in fn:
            best = "%s.%s" % (os.path.splitext(os.path.basename(fn))[0], fs.name)
    return best or "harness"


def run_one(mod, ctx):
    """Run one case, converting exceptions into recorded outcomes."""
    try:
        mod.case(ctx)
    except Discard as e:
        r = str(e)[:80]
        ctx.acc["discards"][r] = ctx.acc["discards"].get(r, 0) + 1
    except OracleFailure:
        pass
    except (KeyboardInterrupt, SystemExit):
        raise
    except BaseException as e:  # unexpected: the operation under test blew up (incl. pyo3 PanicException)
        tb = e.__traceback__
        where = _where(tb)
        if where == "harness" and not isinstance(e, (AssertionError,)):
            # no breezy frame at all: a bug in the harness, not an observation about breezy
            ctx.acc["errors"].append("case %d: %s" % (ctx.index, traceback.format_exc()[-1200:]))
            return
        ctx.fail("unexpected:%s@%s" % (type(e).__name__, where), repr(e)[:500],
                 {"traceback": traceback.format_exc()[-3000:]})
    finally:
        ctx.acc["cases_run"] += 1
        try:
            ctx.cleanup()
        except Exception:
            pass


def load_check(check_id):
    return importlib.import_module("vf.checks.%s" % check_id.lower())


# ---------------------------------------------------------------- worker side

def worker_main(argv):
    check_id, tier, seed, shard, nshards, out = argv[0], argv[1], int(argv[2]), int(argv[3]), int(argv[4]), argv[5]
    fresh = os.environ.get("VERIF_FRESH_RUST")
    if fresh:
        boot.use_fresh_rust(fresh.split(","))
    boot.boot()
    mod = load_check(check_id)
    if hasattr(mod, "worker_init"):
        mod.worker_init(tier)
    acc = new_acc()
    ncases = mod.CASES[tier]
    deadline = time.time() + float(os.environ.get("VERIF_BUDGET_S") or mod.BUDGET_S[tier])
    idx = list(range(shard, ncases, nshards))
    acc["cases_planned"] = len(idx)
    for i in idx:
        if time.time() > deadline:
            break
        ctx = Ctx(acc, check_id, tier, seed, i)
        run_one(mod, ctx)
    if hasattr(mod, "worker_finish"):
        try:
            mod.worker_finish(acc)
        except Exception:
            acc["errors"].append(traceback.format_exc()[-1500:])
    acc["sigs"] = sorted(acc["sigs"])
    acc["distinct"] = {k: sorted(v) for k, v in acc["distinct"].items()}
    with open(out, "w") as f:
        json.dump(acc, f, default=repr)


# ---------------------------------------------------------------- parent side

def load_known():
    p = os.path.join(VERIF, "known_findings.json")
    try:
        with open(p) as f:
            d = json.load(f)
    except FileNotFoundError:
        return {}
    return {e["key"]: e for e in d.get("findings", [])}


def write_evidence(check_id, ev):
    boot.ensure_deps()
    path = os.path.join(VERIF, "evidence", "%s.json" % check_id)
    os.makedirs(os.path.dirname(path), exist_ok=True)
    try:
        import jsonschema

        with open("/root/.vp/EVIDENCE.schema.json") as f:
            schema = json.load(f)
        try:
            jsonschema.validate(ev, schema)
        except jsonschema.ValidationError as e:
            if not ev.get("violations"):
                raise
            ev["coverage"]["schema_note"] = "violating run; evidence incomplete: %s" % (e.message[:200],)
    except FileNotFoundError:
        pass
    except ImportError:
        pass
    tmp = path + ".tmp"
    with open(tmp, "w") as f:
        json.dump(ev, f, indent=1, sort_keys=True, default=repr)
        f.write("\n")
    os.replace(tmp, path)
    return path


def inconclusive(check_id, tier, seed, mod, reason, t0, extra=None):
    ev = {
        "property_id": check_id, "tier": tier, "seed": seed,
        "level": getattr(mod, "LEVEL", "exploration"),
        "coverage": {"evaluations": 1, "distinct_nontrivial": 2, "rule": "INCONCLUSIVE RUN - no verdict: " + reason,
                     "samples": [{"inconclusive": reason}], "verdict": "inconclusive"},
        "assumptions": [], "wall_s": round(time.time() - t0, 2), "violations": 0,
    }
    if extra:
        ev["coverage"].update(extra)
    try:
        write_evidence(check_id, ev)
    except Exception:
        pass
    print("INCONCLUSIVE property=%s reason=%s" % (check_id, reason), flush=True)
    return EXIT_INCONCLUSIVE


def parent_main(check_id, tier, seed, nshards=None, only_case=None):
    t0 = time.time()
    mod = load_check(check_id)
    rust = list(getattr(mod, "RUST", boot.DEFAULT_RUST))
    env = dict(os.environ)
    env["PYTHONHASHSEED"] = "0"
    env["PYTHONPATH"] = VERIF + os.pathsep + env.get("PYTHONPATH", "")
    env["PYTHONDONTWRITEBYTECODE"] = "1"
    if rust:
        ok, log = boot.build_rust(rust)
        if not ok:
            time.sleep(3)
            ok, log2 = boot.build_rust(rust)  # once more: a concurrent cargo may have held things up
            log = log + " || retry: " + log2
        if not ok:
            tail = " ".join(log.strip().splitlines()[-3:])[-300:]
            return inconclusive(check_id, tier, seed, mod, "cargo-build-failed:" + tail.replace(" ", "_"), t0, {"cargo_log": log[-1500:]})
        env["VERIF_FRESH_RUST"] = ",".join(rust)
        env["VERIF_RUST_TARGET_USED"] = os.environ.get("VERIF_RUST_TARGET_USED", "")
    if hasattr(mod, "parent_setup"):
        r = mod.parent_setup(tier)
        if r:
            return inconclusive(check_id, tier, seed, mod, r, t0)
    import glob

    for old in glob.glob(os.path.join(VERIF, "replays", "%s-*" % check_id)):
        try:
            os.unlink(old)
        except OSError:
            pass
    ncases = mod.CASES[tier]
    if nshards is None:
        nshards = int(os.environ.get("VERIF_SHARDS") or getattr(mod, "SHARDS", {}).get(tier, 0) or min(16, os.cpu_count() or 4))
    nshards = max(1, min(nshards, ncases))
    budget = float(os.environ.get("VERIF_BUDGET_S") or mod.BUDGET_S[tier])
    hard = budget * 2.5 + 180
    scratch = boot.fresh_dir("run")
    procs = []
    for s in range(nshards):
        out = os.path.join(scratch, "shard%d.json" % s)
        log = open(os.path.join(scratch, "shard%d.log" % s), "w")
        p = subprocess.Popen(
            [sys.executable, "-u", "-m", "vf.worker", check_id, tier, str(seed), str(s), str(nshards), out],
            cwd=VERIF, env=env, stdout=log, stderr=subprocess.STDOUT, stdin=subprocess.DEVNULL,
        )
        procs.append((s, p, out, log))
    merged = new_acc()
    dead = []
    for s, p, out, log in procs:
        try:
            p.wait(timeout=max(5, hard - (time.time() - t0)))
        except subprocess.TimeoutExpired:
            p.kill()
            p.wait()
            dead.append((s, "watchdog"))
        log.close()
        if not os.path.exists(out):
            full = open(log.name, errors="replace").read()
            os.makedirs(os.path.join(VERIF, "replays"), exist_ok=True)
            with open(os.path.join(VERIF, "replays", "%s-worker%d.log" % (check_id, s)), "w") as fh:
                fh.write(full[-200000:])
            tail = full[-1500:]
            dead.append((s, "rc=%s no result: %s" % (p.returncode, tail)))
            continue
        with open(out) as f:
            acc = json.load(f)
        merged["evaluations"] += acc["evaluations"]
        merged["sigs"].update(acc["sigs"])
        for smp in acc["samples"]:
            if len(merged["samples"]) < 5:
                merged["samples"].append(smp)
        for k in ("monitors", "hist", "discards", "fail_counts"):
            for kk, v in acc[k].items():
                merged[k][kk] = merged[k].get(kk, 0) + v
        for k, v in acc["distinct"].items():
            merged["distinct"].setdefault(k, set()).update(v)
        merged["failures"] += acc["failures"]
        merged["errors"] += acc["errors"]
        merged["cases_run"] += acc["cases_run"]
        merged["cases_planned"] += acc["cases_planned"]
    boot.rm(scratch)
    if dead:
        return inconclusive(check_id, tier, seed, mod, "worker-died:%s" % dead[0][1][:300].replace("\n", " | "), t0)
    if merged["errors"]:
        return inconclusive(check_id, tier, seed, mod, "worker-error:%s" % merged["errors"][0][-300:].replace("\n", " | "), t0)

    known = load_known()
    by_key = {}
    for f in merged["failures"]:
        by_key.setdefault(f["key"], []).append(f)
    known_hits = {k: merged["fail_counts"].get(k, len(v)) for k, v in by_key.items() if k in known}
    viol = {k: v for k, v in by_key.items() if k not in known}
    nviol = sum(merged["fail_counts"].get(k, len(v)) for k, v in viol.items())

    cov = {
        "evaluations": merged["evaluations"],
        "distinct_nontrivial": len(merged["sigs"]),
        "rule": mod.RULE,
        "samples": merged["samples"][:5],
        "monitors": merged["monitors"],
        "histogram": dict(sorted(merged["hist"].items(), key=lambda kv: -kv[1])[:60]),
        "distinct_observed": {k: len(v) for k, v in merged["distinct"].items()},
        "discarded": merged["discards"],
        "cases_planned": merged["cases_planned"],
        "cases_run": merged["cases_run"],
        "known_finding_hits": known_hits,
        "violation_keys": {k: merged["fail_counts"].get(k, len(v)) for k, v in viol.items()},
        "shards": nshards,
        "technique": getattr(mod, "TECHNIQUE", ""),
    }
    if getattr(mod, "EXHAUSTIVE", {}).get(tier) and merged["cases_run"] == merged["cases_planned"]:
        cov["exhaustive"] = True
    ev = {
        "property_id": check_id, "tier": tier, "seed": seed, "level": mod.LEVEL,
        "coverage": cov, "assumptions": list(getattr(mod, "ASSUMPTIONS", [])),
        "wall_s": round(time.time() - t0, 2), "violations": nviol,
    }

    # inconclusive conditions: floors not met (only if no violation was seen)
    reason = None
    # Floors exist to catch a monitor that was silently disconnected (count 0 or tiny), not to punish a loaded
    # machine: they scale with the fraction of planned cases the soft budget let us run, then are halved.
    frac = min(1.0, merged["cases_run"] / float(merged["cases_planned"] or 1))
    scale = max(0.02, frac) * 0.5
    min_evals = max(2, int(mod.MIN_EVALS[tier] * scale))
    cov["floor_scale"] = round(scale, 3)
    if merged["evaluations"] < min_evals:
        reason = "too-few-evaluations:%d<%d" % (merged["evaluations"], min_evals)
    elif len(merged["sigs"]) < 2:
        reason = "too-few-distinct-cases"
    else:
        floors = getattr(mod, "FLOORS", {})
        if floors and isinstance(next(iter(floors.values())), dict):
            floors = floors.get(tier, {})
        for m, floor in floors.items():
            floor = max(1, int(floor * scale))
            if merged["monitors"].get(m, 0) < floor:
                reason = "monitor-not-reached:%s:%d<%d" % (m, merged["monitors"].get(m, 0), floor)
                break
    print("%s tier=%s seed=%d cases=%d/%d evaluations=%d distinct_nontrivial=%d known=%d violations=%d wall=%.1fs" % (
        check_id, tier, seed, merged["cases_run"], merged["cases_planned"], merged["evaluations"],
        len(merged["sigs"]), sum(known_hits.values()), nviol, time.time() - t0), flush=True)
    if merged["monitors"]:
        print("  monitors: " + ", ".join("%s=%d" % kv for kv in sorted(merged["monitors"].items())), flush=True)
    if cov["distinct_observed"]:
        print("  distinct: " + ", ".join("%s=%d" % kv for kv in sorted(cov["distinct_observed"].items())), flush=True)
    for k, n in sorted(known_hits.items()):
        print("KNOWN-FINDING: property=%s %s [%s, %d hits]" % (check_id, known[k].get("what", k), k, n), flush=True)
    if viol:
        os.makedirs(os.path.join(VERIF, "replays"), exist_ok=True)
        paths = []
        for k, fl in sorted(viol.items())[:40]:
            f = fl[0]
            rp = os.path.join(VERIF, "replays", "%s-%s.json" % (check_id, _sig(k)))
            with open(rp, "w") as fh:
                json.dump({"check": check_id, "tier": tier, "seed": seed, "case": f["case"], "key": k,
                           "msg": f["msg"], "detail": f["detail"],
                           "replay_cmd": "./check %s --replay %s" % (check_id, rp)}, fh, indent=1, default=repr)
            paths.append(rp)
            print("  failure key=%s case=%d n=%d: %s" % (k, f["case"], merged["fail_counts"].get(k, len(fl)), f["msg"][:300].replace("\n", " ")), flush=True)
        ev["coverage"]["replays"] = paths
        if not ev["coverage"]["samples"]:
            ev["coverage"]["samples"] = [{"failing_case": fl[0]["case"], "key": k, "msg": fl[0]["msg"][:300]} for k, fl in sorted(viol.items())[:3]]
        write_evidence(check_id, ev)
        for rp in paths:
            print("VIOLATION property=%s replay=%s" % (check_id, rp), flush=True)
        return EXIT_VIOLATED
    if reason:
        return inconclusive(check_id, tier, seed, mod, reason, t0, {"monitors": merged["monitors"], "observed_evaluations": merged["evaluations"]})
    write_evidence(check_id, ev)
    return EXIT_HELD


def replay_main(check_id, path):
    with open(path) as f:
        rp = json.load(f)
    mod = load_check(check_id)
    rust = list(getattr(mod, "RUST", boot.DEFAULT_RUST))
    if rust:
        ok, log = boot.build_rust(rust)
        if ok:
            boot.use_fresh_rust(rust)
    boot.boot()
    if hasattr(mod, "worker_init"):
        mod.worker_init(rp["tier"])
    acc = new_acc()
    ctx = Ctx(acc, check_id, rp["tier"], rp["seed"], rp["case"])
    ctx.replaying = True
    run_one(mod, ctx)
    print(json.dumps({"failures": acc["failures"], "monitors": acc["monitors"], "evaluations": acc["evaluations"]}, indent=1, default=repr))
    hit = [f for f in acc["failures"] if f["key"] == rp["key"]]
    print("REPLAY %s: %s" % (rp["key"], "reproduced" if hit else "NOT reproduced"))
    return 1 if hit else 0


def main(argv=None):
    import argparse

    ap = argparse.ArgumentParser(prog="check")
    ap.add_argument("check")
    ap.add_argument("--tier", default=os.environ.get("VERIF_TIER") or "quick", choices=["quick", "thorough"])
    ap.add_argument("--seed", type=int, default=int(os.environ.get("VERIF_SEED") or 0))
    ap.add_argument("--shards", type=int, default=None)
    ap.add_argument("--replay", default=None)
    a = ap.parse_args(argv)
    cid = a.check.upper()
    if a.replay:
        return replay_main(cid, a.replay)
    return parent_main(cid, a.tier, a.seed, a.shards)
