"""Generators (DESIGN 2.1): TreeGen ops driven by the MWorld model, HistGen histories.

Ops are plain dicts (JSON-able except bytes content).  gen_op() only proposes ops
that are legal in the model; apply_real() performs the same op on a real tree.
"""
import os
import shutil

from .model import ROOT, Ent, MWorld

FILES_Q = ["f1", "f2", "f10", "g.txt", "h.c", "README"]
DIRS_Q = ["d1", "d10", "sub"]  # d1/d10, f1/f10: one name is a string prefix of the other on purpose
FILES_T = FILES_Q + ["f3", "sp ace", "été", ".hidden", "x~", "f1.moved", "f2.THIS"]
DIRS_T = DIRS_Q + ["d2", "d 3"]

LINES = [b"a\n", b"b\n", b"c\n", b"d\n", b"e\n", b"x y z\n", b"\n", b"line\n"]


class Names:
    def __init__(self, tier="quick"):
        self.files = FILES_Q if tier == "quick" else FILES_T
        self.dirs = DIRS_Q if tier == "quick" else DIRS_T
        self.maxdepth = 3 if tier == "quick" else 4


_uniq = [0]


def gen_content(rng, hostile=True):
    """Short line sequence; most contents carry a unique marker line (unambiguous histories)."""
    n = rng.randint(0, 6)
    lines = [rng.choice(LINES) for _ in range(n)]
    if rng.random() < 0.8:
        _uniq[0] += 1
        lines.insert(rng.randint(0, len(lines)), b"u%d-%d\n" % (_uniq[0], rng.randint(0, 10**6)))
    data = b"".join(lines)
    if hostile:
        r = rng.random()
        if r < 0.1 and data.endswith(b"\n"):
            data = data[:-1]
        elif r < 0.15:
            data = data.replace(b"\n", b"\r\n")
        elif r < 0.2:
            data += b"\x00\x01bin"
    return data


def edit_content(rng, old):
    """A modification of old that keeps some lines (so merges have common regions)."""
    lines = old.splitlines(True)
    r = rng.random()
    _uniq[0] += 1
    new = b"e%d-%d\n" % (_uniq[0], rng.randint(0, 10**6))
    if not lines or r < 0.2:
        return gen_content(rng)
    i = rng.randrange(len(lines))
    if r < 0.5:
        lines[i] = new
    elif r < 0.75:
        lines.insert(i, new)
    else:
        del lines[i]
        if rng.random() < 0.5:
            lines.append(new)
    out = b"".join(lines)
    return out if out != old else out + new


DEFAULT_WEIGHTS = {
    "mkfile": 6, "mkdir": 3, "symlink": 1, "add": 8, "edit": 8, "chmod": 2, "rename": 5,
    "remove": 2, "unversion": 2, "delete_disk": 1, "kindchange": 1,
}


def _new_path(rng, w, names, want_versioned_parent=False):
    """A path where nothing exists; parent must exist on disk as a directory."""
    dirs = [""]
    for i in w.versioned_dirs():
        if not _under_missing(w, i):
            dirs.append(w.path(i))
    if not want_versioned_parent:
        dirs += [p for p, v in w.unv.items() if v[0] == "directory"]
    rng.shuffle(dirs)
    for d in dirs[:4]:
        if d.count("/") + 1 >= names.maxdepth:
            continue
        pool = names.files + names.dirs
        rng.shuffle(pool)
        for n in pool[:6]:
            p = (d + "/" + n) if d else n
            if w.free(p):
                return p
    return None


def gen_op(rng, w, names, weights=None):
    """Propose one op legal in model w (or None if nothing applies)."""
    weights = weights or DEFAULT_WEIGHTS
    kinds = list(weights)
    for _ in range(12):
        k = rng.choices(kinds, [weights[x] for x in kinds])[0]
        op = _gen_kind(rng, w, names, k)
        if op is not None:
            return op
    return None


def _versioned(w, kinds=None, missing=False):
    return [i for i, e in w.ents.items() if i != ROOT and (kinds is None or e.kind in kinds) and (missing or not e.missing)
            and not _under_missing(w, i)]


def _under_missing(w, i):
    while i != ROOT:
        e = w.ents[i]
        if e.missing:
            return True
        i = e.parent
    return False


def _gen_kind(rng, w, names, k):
    if k == "mkfile":
        p = _new_path(rng, w, names)
        return p and {"op": "mkfile", "path": p, "content": gen_content(rng)}
    if k == "mkdir":
        p = _new_path(rng, w, names)
        return p and {"op": "mkdir", "path": p}
    if k == "symlink":
        p = _new_path(rng, w, names)
        return p and {"op": "symlink", "path": p, "target": rng.choice(["f1", "../x", "nowhere", "d1", p.rsplit("/", 1)[-1]])}
    if k == "add":
        vp = w.paths()
        cands = [p for p in w.unv if p.rpartition("/")[0] in vp and not w.ents[vp[p.rpartition("/")[0]]].missing
                 and not w.ents[vp[p.rpartition("/")[0]]].kc and w.ents[vp[p.rpartition("/")[0]]].kind == "directory"]
        if not cands:
            return None
        p = rng.choice(sorted(cands))
        return {"op": "add", "path": p, "id": w.new_id(p.rpartition("/")[2])}
    if k == "edit":
        cands = [w.path(i) for i in _versioned(w, ("file",))] + [p for p, v in w.unv.items() if v[0] == "file"]
        if not cands:
            return None
        p = rng.choice(sorted(cands))
        i = w.id_at(p)
        old = w.ents[i].content if i is not None else w.unv[p][1]
        return {"op": "edit", "path": p, "content": edit_content(rng, old or b"")}
    if k == "chmod":
        cands = [w.path(i) for i in _versioned(w, ("file",))]
        if not cands:
            return None
        p = rng.choice(sorted(cands))
        return {"op": "chmod", "path": p, "exec": not w.ents[w.id_at(p)].exec}
    if k == "rename":
        cands = _versioned(w)
        if not cands:
            return None
        i = rng.choice(sorted(cands))
        src = w.path(i)
        for _ in range(6):
            dst = _new_path(rng, w, names, want_versioned_parent=True)
            if dst is None:
                return None
            if dst == src or dst.startswith(src + "/"):
                continue
            if rng.random() < 0.4:  # keep the name, change directory
                dst = (dst.rpartition("/")[0] + "/" if "/" in dst else "") + w.ents[i].name
                if not w.free(dst) or dst.startswith(src + "/") or dst.count("/") + 1 > names.maxdepth:
                    continue
            dp = dst.rpartition("/")[0]
            if dp and (w.id_at(dp) is None or _under_missing(w, w.id_at(dp)) or w.ents[w.id_at(dp)].missing or w.ents[w.id_at(dp)].kc):
                continue
            return {"op": "rename", "src": src, "dst": dst}
        return None
    if k in ("remove", "unversion"):
        cands = _versioned(w)
        if not cands:
            return None
        i = rng.choice(sorted(cands))
        op = {"op": k, "path": w.path(i)}
        if k == "unversion" and rng.random() < 0.5:
            op["api"] = "unversion"  # MutableTree.unversion([path]) instead of remove(keep_files=True)
        return op
    if k == "delete_disk":
        cands = [w.path(i) for i in _versioned(w, ("file", "symlink"))]
        # a whole versioned directory vanishing from disk (no unversioned content inside, not kind-changed)
        cands += [w.path(i) for i in _versioned(w, ("directory",)) if not w.ents[i].kc
                  and not any(q.startswith(w.path(i) + "/") for q in w.unv)
                  and not any(w.ents[c].kc for c in w.descendants(i))]
        if not cands:
            return None
        return {"op": "delete_disk", "path": rng.choice(sorted(cands))}
    if k == "kindchange":
        cands = [i for i in _versioned(w, ("file", "symlink"))] + [i for i in _versioned(w, ("directory",)) if not w.children(i) and not any(q.startswith(w.path(i) + "/") for q in w.unv)]
        if not cands:
            return None
        i = rng.choice(sorted(cands))
        e = w.ents[i]
        newkind = rng.choice([x for x in ("file", "directory", "symlink") if x != e.kind])
        op = {"op": "kindchange", "path": w.path(i), "kind": newkind}
        if newkind == "file":
            op["content"] = gen_content(rng)
        elif newkind == "symlink":
            op["content"] = "tgt"
        return op
    raise ValueError(k)


def _write(path, data):
    with open(path, "wb") as f:
        f.write(data)


def _rm(path):
    if os.path.isdir(path) and not os.path.islink(path):
        shutil.rmtree(path)
    else:
        os.unlink(path)


def apply_real(wt, op, use_ids=None):
    """Perform op on the real working tree (public mutation API + raw file-system edits)."""
    k = op["op"]
    base = wt.basedir
    if use_ids is None:
        use_ids = wt.supports_setting_file_ids()
    if k == "mkfile":
        _write(os.path.join(base, op["path"]), op["content"])
    elif k == "mkdir":
        os.mkdir(os.path.join(base, op["path"]))
    elif k == "symlink":
        os.symlink(op["target"], os.path.join(base, op["path"]))
    elif k == "add":
        if use_ids:
            wt.add([op["path"]], ids=[op["id"].encode()])
        else:
            wt.add([op["path"]])
    elif k == "edit":
        ap = os.path.join(base, op["path"])
        mode = os.stat(ap).st_mode
        _write(ap, op["content"])
        os.chmod(ap, mode & 0o7777)
    elif k == "chmod":
        os.chmod(os.path.join(base, op["path"]), 0o755 if op["exec"] else 0o644)
    elif k == "rename":
        wt.rename_one(op["src"], op["dst"])
    elif k == "remove":
        wt.remove([op["path"]], keep_files=False, force=True)
    elif k == "unversion":
        if op.get("api") == "unversion":
            with wt.lock_tree_write():
                wt.unversion([op["path"]])
        else:
            wt.remove([op["path"]], keep_files=True)
    elif k == "delete_disk":
        _rm(os.path.join(base, op["path"]))
    elif k == "kindchange":
        ap = os.path.join(base, op["path"])
        _rm(ap)
        if op["kind"] == "file":
            _write(ap, op["content"])
        elif op["kind"] == "directory":
            os.mkdir(ap)
        else:
            os.symlink(op["content"], ap)
    else:
        raise ValueError(k)


def op_json(op):
    return {k: (v.decode("latin-1") if isinstance(v, bytes) else v) for k, v in op.items()}


def world_from_tree(wt):
    """Model of a real working tree, read through the public API + disk (resync after merge etc.)."""
    from .observe import snap_disk, snap_tree

    w = MWorld()
    st = snap_tree(wt)
    disk = snap_disk(wt.basedir)
    root_real = None
    ids = {}
    for path in sorted(st, key=lambda p: p.count("/")):
        kind, content, ex, fid = st[path]
        fid = fid or ("p:" + path)
        parent, _, name = path.rpartition("/")
        pid = ids[parent] if parent else ROOT
        ids[path] = fid
        if kind is None:
            w.ents[fid] = Ent(pid, name, "file", None, False, missing=True)
        else:
            w.ents[fid] = Ent(pid, name, kind, content, ex)
    for p, v in disk.items():
        if p not in st:
            w.unv[p] = v
        elif st[p][0] is not None and v[0] != st[p][0]:
            e = w.ents[ids[p]]
            e.kind, e.content, e.exec = v[0], v[1], v[2]
    w.basis = None
    w.next_id = 1000 + len(w.ents)
    return w


# ---------------------------------------------------------------- histories

class Hist:
    """A generated multi-branch history (real objects on disk + what was recorded)."""

    def __init__(self, root, fmt):
        self.root = root
        self.fmt = fmt
        self.trees = {}  # name -> path
        self.recorded = {}  # revid(bytes) -> {"parents": [...], "tree": snap before commit, "props": {...}}
        self.order = []  # revids in creation order
        self.log = []  # JSON-able op log
        self.tags = {}

    def wt(self, name):
        from breezy.workingtree import WorkingTree

        return WorkingTree.open(self.trees[name])


def make_tree(path, fmt="2a", shared_repo=None):
    from breezy.controldir import ControlDir

    from breezy.controldir import format_registry

    os.makedirs(path, exist_ok=True)
    if isinstance(fmt, str):
        fmt = format_registry.make_controldir(fmt)
    return ControlDir.create_standalone_workingtree(path, format=fmt)


def random_delta(rng, wt, names, nops, weights=None, log=None):
    """Apply nops model-legal random ops to wt; returns the model after them."""
    w = world_from_tree(wt)
    done = 0
    for _ in range(nops * 3):
        if done >= nops:
            break
        op = gen_op(rng, w, names, weights)
        if op is None:
            continue
        try:
            apply_real(wt, op)
        except Exception as e:  # refused by breezy: resync and go on (C09 judges refusals, not us)
            if log is not None:
                log.append({"refused": op_json(op), "err": type(e).__name__})
            w = world_from_tree(wt)
            continue
        w.apply(op)
        done += 1
        if log is not None:
            log.append(op_json(op))
    return w


def commit(hist, name, wt, rng, msg=None, **kw):
    """Commit everything in wt with generator-chosen metadata; record what was asked."""
    from .observe import snap_tree

    n = len(hist.order) + 1
    revid = ("rev-%s-%d" % (name, n)).encode()
    ts = 1500000000 + n * 1000 + rng.randint(0, 999)
    tz = rng.choice([0, 3600, -18000, 19800])
    msg = msg or rng.choice(["msg %d" % n, "multi\nline %d" % n, "unicodé %d" % n])
    committer = rng.choice(["Joe <joe@example.com>", "Jürgen <j@example.org>"])
    before = snap_tree(wt)
    parents = wt.get_parent_ids()
    rid = wt.commit(msg, rev_id=revid, timestamp=ts, timezone=tz, committer=committer, **kw)
    hist.recorded[rid] = {"parents": list(parents), "tree": before, "message": msg, "timestamp": ts,
                          "timezone": tz, "committer": committer, "branch": name}
    hist.order.append(rid)
    hist.log.append({"commit": rid.decode(), "in": name, "parents": [p.decode() for p in parents]})
    return rid


def resolve_all(wt):
    """Brutally resolve whatever a merge left behind: keep disk state, drop conflict records and helper files."""
    from breezy import conflicts as _c

    for c in list(wt.conflicts()):
        pass
    base = wt.basedir
    for dp, dns, fns in os.walk(base):
        if ".bzr" in dns:
            dns.remove(".bzr")
        if ".git" in dns:
            dns.remove(".git")
        for f in fns:
            if f.endswith((".BASE", ".THIS", ".OTHER")) and not wt.is_versioned(os.path.relpath(os.path.join(dp, f), base)):
                os.unlink(os.path.join(dp, f))
    wt.set_conflicts([])


def build_history(ctx, rng, fmt="2a", nrevs=8, nbranches=2, names=None, weights=None, ghosts=False, merges=True, tags=False):
    """Random multi-branch history with merges.  Returns Hist."""
    from breezy import errors
    from breezy.branch import Branch
    from breezy.commit import PointlessCommit
    from breezy.workingtree import WorkingTree

    names = names or Names("quick")
    root = ctx.tmp("hist")
    h = Hist(root, fmt)
    p0 = os.path.join(root, "b0")
    wt = make_tree(p0, fmt)
    h.trees["b0"] = p0
    random_delta(rng, wt, names, rng.randint(2, 6), weights, h.log)
    commit(h, "b0", wt, rng)
    guard = 0
    while len(h.order) < nrevs and guard < nrevs * 6:
        guard += 1
        r = rng.random()
        bnames = sorted(h.trees)
        if r < 0.15 and len(h.trees) < nbranches:
            src = rng.choice(bnames)
            nn = "b%d" % len(h.trees)
            np_ = os.path.join(root, nn)
            swt = WorkingTree.open(h.trees[src])
            swt.branch.controldir.sprout(np_)
            h.trees[nn] = np_
            h.log.append({"branch": nn, "from": src})
            continue
        name = rng.choice(bnames)
        wt = WorkingTree.open(h.trees[name])
        if merges and r < 0.45 and len(h.trees) > 1:
            other = rng.choice([b for b in bnames if b != name])
            ob = Branch.open(h.trees[other])
            with wt.lock_read():
                already = wt.branch.repository.get_graph().is_ancestor(ob.last_revision(), wt.last_revision())
            if already:
                continue
            try:
                with wt.lock_write():
                    wt.merge_from_branch(ob)
            except errors.BzrError as e:
                h.log.append({"merge-refused": type(e).__name__})
                wt = WorkingTree.open(h.trees[name])
                wt.revert()
                continue
            resolve_all(wt)
            if rng.random() < 0.5:
                random_delta(rng, wt, names, rng.randint(0, 2), weights, h.log)
            h.log.append({"merge": other, "into": name})
            try:
                commit(h, name, wt, rng)
            except PointlessCommit:
                wt.revert()
            continue
        random_delta(rng, wt, names, rng.randint(1, 5), weights, h.log)
        if ghosts and rng.random() < 0.15:
            wt.add_pending_merge(b"ghost-%d" % len(h.order))
        try:
            commit(h, name, wt, rng)
        except PointlessCommit:
            pass
        if tags and rng.random() < 0.3:
            t = rng.choice(["v1", "rel 2", "t/x", "über"])
            wt.branch.tags.set_tag(t, wt.last_revision())
            h.tags.setdefault(name, {})[t] = wt.last_revision()
    return h
