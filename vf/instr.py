"""Instruments (DESIGN 2.4): I1 `vf+` transport decorator, I2 cooperative scheduler.

Usage (single actor, crash prefixes):
    w = World(root)                      # root = scratch directory being observed
    with w.active(), w.actor("A"):
        b = Branch.open(w.url(path))     # vf+file:///...
        ...                              # every transport op is logged / hookable
Usage (schedules):
    w = World(root); s = Scheduler(w, rng, ...); s.run({"A": fnA, "B": fnB})
"""
import contextlib
import hashlib
import os
import threading

from dromedary import register_transport, urlutils
from dromedary.decorator import TransportDecorator

PREFIX = "vf+"

MUTATING = frozenset([
    "put_file", "put_bytes", "put_file_non_atomic", "put_bytes_non_atomic", "mkdir", "rename", "move",
    "delete", "rmdir", "delete_tree", "append_file", "append_bytes", "open_write_stream", "stream_write",
    "stream_close", "copy", "copy_tree", "symlink", "hardlink",
])


class SimulatedCrash(BaseException):
    """The simulated process stopped here; nothing it does afterwards reaches the disk."""


class ScheduleAbort(BaseException):
    """Step budget exhausted: unwind every actor thread."""


class Event:
    __slots__ = ("seq", "actor", "op", "path", "extra", "error", "mut")

    def __init__(self, seq, actor, op, path, extra=None, mut=False):
        self.seq, self.actor, self.op, self.path, self.extra, self.error, self.mut = seq, actor, op, path, extra, None, mut

    def as_json(self):
        d = {"seq": self.seq, "actor": self.actor, "op": self.op, "path": self.path}
        if self.extra is not None:
            d["extra"] = self.extra
        if self.error:
            d["error"] = self.error
        return d

    def __repr__(self):
        return "<%d %s %s %s%s>" % (self.seq, self.actor, self.op, self.path, " !" + self.error if self.error else "")


_WORLD = None
_tls = threading.local()


def current_actor():
    return getattr(_tls, "actor", None)


class World:
    def __init__(self, root):
        self.root = os.path.realpath(root)
        self.log = []
        self.seq = 0
        self.mut_count = {}       # actor -> number of mutating ops started
        self.crash_at = {}        # actor -> k: crash *before* performing its k-th mutating op (1-based)
        self.crash_after = {}     # actor -> k: crash right *after* its k-th mutating op completed
        self.fail_at = {}         # actor -> (k, exception factory(event)): k-th mutating op raises once
        self.fail_any_at = {}     # actor -> (k, exception factory(event)): k-th op of any kind (reads too) raises once
        self.op_count = {}        # actor -> number of ops of any kind started
        self.frozen = set()
        self.before = None        # hook(event) before a mutating op is performed
        self.after = None         # hook(event) after a mutating op completed
        self.scheduler = None
        self.keep_log = True

    # -- activation
    @contextlib.contextmanager
    def active(self):
        global _WORLD
        prev = _WORLD
        _WORLD = self
        try:
            yield self
        finally:
            _WORLD = prev

    @contextlib.contextmanager
    def actor(self, name):
        prev = getattr(_tls, "actor", None)
        _tls.actor = name
        try:
            yield
        finally:
            _tls.actor = prev

    def url(self, path):
        return PREFIX + urlutils.local_path_to_url(path)

    def rel(self, abspath):
        ap = abspath
        if ap.startswith(self.root):
            ap = ap[len(self.root):].lstrip("/")
        return ap

    # -- the operation funnel
    def do(self, name, abspath, fn, extra=None):
        actor = current_actor() or "-"
        mut = name in MUTATING
        if actor in self.frozen:
            raise SimulatedCrash(actor)
        self.seq += 1
        ev = Event(self.seq, actor, name, self.rel(abspath), extra, mut)
        if self.scheduler is not None:
            self.scheduler.yield_point(actor, ev)
            if actor in self.frozen:
                raise SimulatedCrash(actor)
        n = self.op_count[actor] = self.op_count.get(actor, 0) + 1
        fa = self.fail_any_at.get(actor)
        if fa is not None and fa[0] == n:
            del self.fail_any_at[actor]
            ev.error = "injected"
            if self.keep_log:
                self.log.append(ev)
            raise fa[1](ev)
        k = None
        if mut:
            k = self.mut_count[actor] = self.mut_count.get(actor, 0) + 1
            if self.crash_at.get(actor) == k:
                self.frozen.add(actor)
                raise SimulatedCrash(actor)
            fa = self.fail_at.get(actor)
            if fa is not None and fa[0] == k:
                del self.fail_at[actor]
                ev.error = "injected"
                if self.keep_log:
                    self.log.append(ev)
                raise fa[1](ev)
            if self.before is not None:
                self.before(ev)
        try:
            r = fn()
        except Exception as e:
            ev.error = type(e).__name__
            if self.keep_log:
                self.log.append(ev)
            raise
        if self.keep_log:
            self.log.append(ev)
        if mut:
            if self.after is not None:
                self.after(ev)
            if self.crash_after.get(actor) == k:
                self.frozen.add(actor)
                raise SimulatedCrash(actor)
        return r

    def mutating_events(self, actor=None):
        return [e for e in self.log if e.mut and (actor is None or e.actor == actor)]


class _Stream:
    """Wrap a FileStream so each write and the close are operations too."""

    def __init__(self, inner, abspath):
        self._inner = inner
        self._abspath = abspath

    def write(self, data):
        w = _WORLD
        if w is None:
            return self._inner.write(data)
        return w.do("stream_write", self._abspath, lambda: self._inner.write(data), extra=len(data))

    def close(self, *a, **kw):
        w = _WORLD
        if w is None:
            return self._inner.close(*a, **kw)
        return w.do("stream_close", self._abspath, lambda: self._inner.close(*a, **kw))

    def __enter__(self):
        return self

    def __exit__(self, *exc):
        self.close()
        return False

    def __getattr__(self, name):
        return getattr(self._inner, name)


def _size(x):
    try:
        return len(x)
    except TypeError:
        return None


class VfTransport(TransportDecorator):
    """Decorator that funnels every operation through the active World."""

    @classmethod
    def _get_url_prefix(cls):
        return PREFIX

    def _abs(self, relpath):
        try:
            return self._decorated.local_abspath(relpath)
        except Exception:
            return self._decorated.abspath(relpath)

    def _do(self, name, relpath, fn, extra=None):
        w = _WORLD
        if w is None:
            return fn()
        return w.do(name, self._abs(relpath), fn, extra)

    # reads (yield points; never crash points)
    def get(self, relpath):
        return self._do("get", relpath, lambda: self._decorated.get(relpath))

    def get_bytes(self, relpath):
        return self._do("get_bytes", relpath, lambda: self._decorated.get_bytes(relpath))

    def has(self, relpath):
        return self._do("has", relpath, lambda: self._decorated.has(relpath))

    def stat(self, relpath):
        return self._do("stat", relpath, lambda: self._decorated.stat(relpath))

    def list_dir(self, relpath):
        return self._do("list_dir", relpath, lambda: self._decorated.list_dir(relpath))

    def _readv(self, relpath, offsets):
        offsets = list(offsets)
        return self._do("readv", relpath, lambda: list(self._decorated._readv(relpath, offsets)), extra=len(offsets))

    def readv(self, relpath, offsets, adjust_for_latency=False, upper_limit=None):
        offsets = list(offsets)
        return self._do("readv", relpath, lambda: list(self._decorated.readv(relpath, offsets, adjust_for_latency, upper_limit)), extra=len(offsets))

    # mutations
    def put_file(self, relpath, f, mode=None):
        return self._do("put_file", relpath, lambda: self._decorated.put_file(relpath, f, mode))

    def put_bytes(self, relpath, raw_bytes, mode=None):
        return self._do("put_bytes", relpath, lambda: self._decorated.put_bytes(relpath, raw_bytes, mode), extra=_size(raw_bytes))

    def put_file_non_atomic(self, relpath, f, mode=None, create_parent_dir=False, dir_mode=None):
        return self._do("put_file_non_atomic", relpath, lambda: self._decorated.put_file_non_atomic(
            relpath, f, mode=mode, create_parent_dir=create_parent_dir, dir_mode=dir_mode))

    def put_bytes_non_atomic(self, relpath, raw_bytes, mode=None, create_parent_dir=False, dir_mode=None):
        return self._do("put_bytes_non_atomic", relpath, lambda: self._decorated.put_bytes_non_atomic(
            relpath, raw_bytes, mode=mode, create_parent_dir=create_parent_dir, dir_mode=dir_mode), extra=_size(raw_bytes))

    def append_file(self, relpath, f, mode=None):
        return self._do("append_file", relpath, lambda: self._decorated.append_file(relpath, f, mode=mode))

    def append_bytes(self, relpath, data, mode=None):
        return self._do("append_bytes", relpath, lambda: self._decorated.append_bytes(relpath, data, mode=mode), extra=_size(data))

    def mkdir(self, relpath, mode=None):
        return self._do("mkdir", relpath, lambda: self._decorated.mkdir(relpath, mode))

    def rename(self, rel_from, rel_to):
        return self._do("rename", rel_from, lambda: self._decorated.rename(rel_from, rel_to), extra=World.rel(_WORLD, self._abs(rel_to)) if _WORLD else None)

    def move(self, rel_from, rel_to):
        return self._do("move", rel_from, lambda: self._decorated.move(rel_from, rel_to), extra=World.rel(_WORLD, self._abs(rel_to)) if _WORLD else None)

    def copy(self, rel_from, rel_to):
        return self._do("copy", rel_from, lambda: self._decorated.copy(rel_from, rel_to), extra=World.rel(_WORLD, self._abs(rel_to)) if _WORLD else None)

    def delete(self, relpath):
        return self._do("delete", relpath, lambda: self._decorated.delete(relpath))

    def rmdir(self, relpath):
        return self._do("rmdir", relpath, lambda: self._decorated.rmdir(relpath))

    def delete_tree(self, relpath):
        return self._do("delete_tree", relpath, lambda: self._decorated.delete_tree(relpath))

    def open_write_stream(self, relpath, mode=None):
        ap = self._abs(relpath)
        s = self._do("open_write_stream", relpath, lambda: self._decorated.open_write_stream(relpath, mode=mode))
        return _Stream(s, ap)

    def symlink(self, source, link_name):
        return self._do("symlink", link_name, lambda: self._decorated.symlink(source, link_name))

    def hardlink(self, source, link_name):
        return self._do("hardlink", link_name, lambda: self._decorated.hardlink(source, link_name))

    def readlink(self, relpath):
        return self._decorated.readlink(relpath)

    def ensure_base(self, mode=None):
        # base-class implementation calls self.mkdir('.') which is instrumented
        return super().ensure_base(mode)


_registered = [False]


def install():
    if not _registered[0]:
        register_transport(PREFIX, VfTransport)
        _registered[0] = True


# ---------------------------------------------------------------- I2 scheduler

class Scheduler:
    """Cooperative scheduler: exactly one actor thread runs; control changes only at transport ops.

    strategy: "random" (switch with probability p at each op), "pct" (priorities + d change points),
    "targeted" (switch with high probability around ops whose path matches `hot`).
    The decision list (actor chosen at each yield point) is the schedule.
    """

    def __init__(self, world, rng, strategy="random", p=0.2, hot=None, max_steps=20000, d=3, replay=None):
        self.world = world
        world.scheduler = self
        self.rng = rng
        self.strategy = strategy
        self.p = p
        self.hot = hot
        self.max_steps = max_steps
        self.steps = 0
        self.switches = 0
        self.hot_hits = 0
        self.decisions = []
        self.replay = list(replay) if replay is not None else None
        self.cv = threading.Condition()
        self.current = None
        self.alive = []
        self.errors = {}
        self.results = {}
        self.aborted = False
        self.prio = {}
        self.change_points = set()
        self.d = d

    def _pick(self, actor, ev):
        alive = self.alive
        if len(alive) <= 1:
            return actor
        if self.replay is not None:
            if self.replay:
                nxt = self.replay.pop(0)
                if nxt in alive:
                    return nxt
            return actor
        others = [a for a in alive if a != actor]
        if self.strategy == "pct":
            if self.steps in self.change_points:
                self.prio[actor] = min(self.prio.values()) - 1
            return max(alive, key=lambda a: self.prio[a])
        p = self.p
        if self.hot is not None and self.hot(ev):
            self.hot_hits += 1
            p = 0.7
        if self.rng.random() < p:
            return self.rng.choice(others)
        return actor

    def yield_point(self, actor, ev):
        if actor == "-" or actor not in self.alive:
            return
        with self.cv:
            if self.aborted:
                raise ScheduleAbort()
            self.steps += 1
            if self.steps > self.max_steps:
                self.aborted = True
                self.cv.notify_all()
                raise ScheduleAbort()
            nxt = self._pick(actor, ev)
            self.decisions.append(nxt)
            if nxt != actor:
                self.switches += 1
                self.current = nxt
                self.cv.notify_all()
                while self.current != actor and not self.aborted:
                    self.cv.wait(60)
                if self.aborted:
                    raise ScheduleAbort()

    def pause(self, actor=None):
        """Explicit yield (e.g. in a retry loop after LockContention)."""
        actor = actor or current_actor()
        self.yield_point(actor, Event(0, actor, "pause", ""))

    def _finish(self, actor):
        with self.cv:
            if actor in self.alive:
                self.alive.remove(actor)
            if self.current == actor:
                self.current = self.alive[0] if self.alive else None
                if self.alive and self.replay is None and self.strategy != "pct":
                    self.current = self.rng.choice(self.alive)
                elif self.alive and self.strategy == "pct":
                    self.current = max(self.alive, key=lambda a: self.prio[a])
            self.cv.notify_all()

    def run(self, procs, timeout=600):
        """procs: {actor: callable()}.  Returns True if all finished within the step budget."""
        names = sorted(procs)
        self.alive = list(names)
        if self.strategy == "pct":
            order = list(names)
            self.rng.shuffle(order)
            self.prio = {a: len(order) - i for i, a in enumerate(order)}
            self.change_points = {self.rng.randint(1, max(2, self.max_steps // 20)) for _ in range(self.d)}
        self.current = self.rng.choice(names) if self.replay is None else names[0]
        threads = []

        def body(name):
            _tls.actor = name
            with self.cv:
                while self.current != name and not self.aborted:
                    self.cv.wait(60)
            try:
                if not self.aborted:
                    self.results[name] = procs[name]()
            except ScheduleAbort:
                pass
            except SimulatedCrash:
                self.results[name] = "crashed"
            except BaseException as e:  # recorded for the check to judge
                self.errors[name] = e
            finally:
                self._finish(name)

        with self.world.active():
            for n in names:
                t = threading.Thread(target=body, args=(n,), name="actor-" + n, daemon=True)
                threads.append(t)
                t.start()
            for t in threads:
                t.join(timeout)
            stuck = [t.name for t in threads if t.is_alive()]
        if stuck:
            with self.cv:
                self.aborted = True
                self.cv.notify_all()
            for t in threads:
                t.join(5)
            self.stuck = stuck
            return False
        self.stuck = []
        return not self.aborted

    def schedule_hash(self):
        return hashlib.blake2b(",".join(self.decisions).encode(), digest_size=8).hexdigest()


# ---------------------------------------------------------------- I4 exception failpoints (sys.monitoring)

class InjectedFault(Exception):
    """Raised at the k-th Python function entry inside the monitored modules."""


class PyFailpoints:
    """Count (and optionally fail) PY_START events of functions defined in files matching `match`.

    usage: fp = PyFailpoints(lambda filename: "/breezy/commit.py" in filename)
           with fp.armed(fail_at=None): ...   -> fp.count   (dry run)
           with fp.armed(fail_at=k): ...      -> raises InjectedFault at the k-th matching entry
    """

    TOOL_ID = 4

    def __init__(self, match, exc=InjectedFault):
        self.match = match
        self.exc = exc
        self.count = 0
        self.fail_at = None
        self.fired_in = None
        self._cache = {}

    def _cb(self, code, offset):
        import sys

        fn = code.co_filename
        m = self._cache.get(fn)
        if m is None:
            m = self._cache[fn] = bool(self.match(fn))
        if not m:
            return sys.monitoring.DISABLE
        self.count += 1
        if self.fail_at is not None and self.count == self.fail_at:
            self.fired_in = "%s.%s" % (os.path.splitext(os.path.basename(fn))[0], code.co_name)
            raise self.exc("injected at entry #%d: %s" % (self.count, self.fired_in))

    @contextlib.contextmanager
    def armed(self, fail_at=None):
        import sys

        mon = sys.monitoring
        self.count = 0
        self.fail_at = fail_at
        self.fired_in = None
        try:
            mon.use_tool_id(self.TOOL_ID, "vf-failpoints")
        except ValueError:
            pass
        mon.register_callback(self.TOOL_ID, mon.events.PY_START, self._cb)
        mon.set_events(self.TOOL_ID, mon.events.PY_START)
        mon.restart_events()
        try:
            yield self
        finally:
            mon.set_events(self.TOOL_ID, 0)
            mon.register_callback(self.TOOL_ID, mon.events.PY_START, None)
            try:
                mon.free_tool_id(self.TOOL_ID)
            except Exception:
                pass


# ---------------------------------------------------------------- I3 OS failpoints

class OsFaults:
    """Count / fail file-system calls made while `armed` (process-wide wrappers, pass-through when idle).

    Wrapped: os.rename, os.replace, os.unlink, os.remove, os.rmdir, os.mkdir, os.chmod, os.symlink, os.link,
    shutil.rmtree, and delete_any under the names breezy modules bound it to.
    usage: F = OsFaults.get(); F.begin(fail_at=None|k, errno_=EIO, only_in=("/transform.py",)) ... F.end() -> F.count, F.calls
    `window` (callable) decides whether we are inside the operation under test (e.g. inside tt.apply()).
    """

    _inst = None

    @classmethod
    def get(cls):
        if cls._inst is None:
            cls._inst = cls()
            cls._inst._install()
        return cls._inst

    def __init__(self):
        self.active = False
        self.depth = 0          # > 0 while inside the window (e.g. tt.apply)
        self.count = 0
        self.fail_at = None
        self.errno_ = 5
        self.calls = []
        self.fired = None
        self.only_in = None

    def begin(self, fail_at=None, errno_=5, only_in=None, exc=None):
        self.exc = exc  # exception class to raise instead of OSError(errno_) (e.g. KeyboardInterrupt)
        self.active = True
        self.depth = 0
        self.count = 0
        self.fail_at = fail_at
        self.errno_ = errno_
        self.calls = []
        self.fired = None
        self.only_in = only_in
        self.windows = 0

    def end(self):
        self.active = False
        self.depth = 0

    def _hit(self, name, args):
        if not self.active or self.depth <= 0:
            return
        if self.only_in is not None:
            import sys

            f = sys._getframe(2)
            ok = False
            for _ in range(4):
                if f is None:
                    break
                if f.f_code.co_filename.endswith(self.only_in):
                    ok = True
                    break
                f = f.f_back
            if not ok:
                return
        self.count += 1
        a0 = args[0] if args else None
        self.calls.append((name, a0 if isinstance(a0, str) else repr(a0)))
        if self.fail_at is not None and self.count == self.fail_at:
            self.fired = (name, a0)
            self.fail_at = None
            if getattr(self, "exc", None) is not None:
                raise self.exc()
            raise OSError(self.errno_, "injected fault", a0 if isinstance(a0, str) else None)

    def _wrap(self, mod, attr, name=None):
        orig = getattr(mod, attr)
        if getattr(orig, "_vf_wrapped", False):
            return
        nm = name or attr
        me = self

        def w(*a, **kw):
            me._hit(nm, a)
            return orig(*a, **kw)
        w._vf_wrapped = True
        w.__name__ = getattr(orig, "__name__", nm)
        setattr(mod, attr, w)

    def _install(self):
        import shutil

        for a in ("rename", "replace", "unlink", "remove", "rmdir", "mkdir", "chmod", "symlink", "link"):
            self._wrap(os, a, "os." + a)
        self._wrap(shutil, "rmtree", "shutil.rmtree")
        import breezy.osutils
        import breezy.transform

        self._wrap(breezy.osutils, "delete_any", "delete_any")
        self._wrap(breezy.osutils, "chmod_if_possible", "chmod_if_possible")
        self._wrap(breezy.transform, "delete_any", "delete_any")
        for m in ("breezy.bzr.transform", "breezy.git.transform", "breezy.bzr.workingtree", "breezy.clean_tree"):
            try:
                mod = __import__(m, fromlist=["x"])
            except Exception:
                continue
            if hasattr(mod, "delete_any"):
                self._wrap(mod, "delete_any", "delete_any")

    def window(self, cls, method):
        """Make cls.method the window: faults are armed only while it runs."""
        orig = getattr(cls, method)
        if getattr(orig, "_vf_window", False):
            return
        me = self

        def w(*a, **kw):
            me.depth += 1
            if me.active:
                me.windows = getattr(me, "windows", 0) + 1
            try:
                return orig(*a, **kw)
            finally:
                me.depth -= 1
        w._vf_window = True
        w.__name__ = method
        w.__doc__ = orig.__doc__
        setattr(cls, method, w)
