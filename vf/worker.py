import sys

from vf import runner

if __name__ == "__main__":
    runner.worker_main(sys.argv[1:])
