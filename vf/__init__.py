"""vf - runtime-monitoring harness for breezy (see /verif/DESIGN.md)."""
