"""Process bootstrap: environment isolation, source selection, breezy init.

Every harness process (parent and shard workers) calls boot() exactly once
before importing anything from breezy.
"""
import atexit
import os
import shutil
import sys
import tempfile

VERIF = os.path.dirname(os.path.dirname(os.path.abspath(__file__)))
REPO = os.environ.get("VERIF_REPO", "/repo")
GUARD = "BREEZY_VERIF"

_booted = False
_scratch_root = None


def ensure_deps():
    """Install icontract/jsonschema into /verif/.deps if missing (offline)."""
    deps = os.path.join(VERIF, ".deps")
    if not os.path.isdir(os.path.join(deps, "jsonschema")) or not os.path.isdir(
        os.path.join(deps, "icontract")
    ):
        import subprocess

        subprocess.run(
            [
                sys.executable, "-m", "pip", "install", "-q", "--no-index",
                "--find-links", "/opt/veriftools/wheels", "--target", deps,
                "icontract", "jsonschema",
            ],
            check=False, stdout=subprocess.DEVNULL, stderr=subprocess.DEVNULL,
            timeout=300,
        )
    if deps not in sys.path:
        sys.path.append(deps)
    return deps


def scratch_root():
    """Per-process scratch directory on tmpfs, removed at exit."""
    global _scratch_root
    if _scratch_root is None:
        base = os.environ.get("VERIF_SCRATCH") or (
            "/dev/shm" if os.path.isdir("/dev/shm") else tempfile.gettempdir()
        )
        _scratch_root = tempfile.mkdtemp(prefix="vf-%d-" % os.getpid(), dir=base)
        atexit.register(shutil.rmtree, _scratch_root, True)
    return _scratch_root


_counter = [0]


def fresh_dir(tag="d"):
    _counter[0] += 1
    p = os.path.join(scratch_root(), "%s%d" % (tag, _counter[0]))
    os.makedirs(p)
    return p


def rm(path):
    shutil.rmtree(path, ignore_errors=True)


def boot(quiet=True):
    """Isolate the environment and initialise breezy from REPO."""
    global _booted
    if _booted:
        return
    _booted = True
    os.environ[GUARD] = "1"
    home = os.path.join(scratch_root(), "home")
    os.makedirs(home, exist_ok=True)
    os.environ.update(
        {
            "HOME": home,
            "BRZ_HOME": home,
            "XDG_CONFIG_HOME": os.path.join(home, ".config"),
            "XDG_CACHE_HOME": os.path.join(home, ".cache"),
            "BRZ_EMAIL": "Verif Harness <verif@example.com>",
            "EMAIL": "verif@example.com",
            "BRZ_PLUGIN_PATH": "-site:-user",
            "BRZ_DISABLE_PLUGINS": "launchpad:github:gitlab",
            "TZ": "UTC",
            "LANG": "C.UTF-8",
            "LC_ALL": "C.UTF-8",
            "BRZ_PROGRESS_BAR": "none",
            "BRZ_LOG": os.devnull,
            "GIT_CONFIG_NOSYSTEM": "1",
        }
    )
    for k in ("BRZ_EDITOR", "VISUAL", "EDITOR", "BZR_HOME", "BZREMAIL", "http_proxy",
              "https_proxy", "BRZ_REMOTE_PATH", "BRZ_SSH"):
        os.environ.pop(k, None)
    if REPO not in sys.path[:1]:
        sys.path.insert(0, REPO)
    ensure_deps()
    import breezy

    if os.path.realpath(os.path.dirname(os.path.dirname(breezy.__file__))) != os.path.realpath(REPO):
        raise RuntimeError("breezy imported from %s, wanted %s" % (breezy.__file__, REPO))
    from breezy import lockdir, trace, ui

    state = breezy.initialize(setup_ui=False)
    ui.ui_factory = ui.SilentUIFactory()
    atexit.register(_shutdown, state)
    lockdir._DEFAULT_TIMEOUT_SECONDS = 0
    lockdir._DEFAULT_POLL_SECONDS = 0
    if quiet:
        trace.be_quiet(True)
        import logging

        logging.getLogger("brz").handlers[:] = [logging.NullHandler()]
        logging.getLogger("brz").propagate = False
    import breezy.bzr  # noqa: F401  registers formats
    import breezy.git  # noqa: F401
    from breezy import plugin

    try:
        plugin.load_plugins()
    except Exception:
        pass
    import warnings

    warnings.simplefilter("ignore")


def _shutdown(state):
    try:
        state.__exit__(None, None, None)
    except BaseException:
        pass


# --- freshly built Rust extension modules -----------------------------------

_RUST = {
    "breezy._cmd_rs": ("cmd-py", "libcmd_py.so"),
    "breezy._git_rs": ("git-py", "libgit_py.so"),
    "breezy._patch_rs": ("patch-py", "libpatch_py.so"),
    "breezy._osutils_rs": ("osutils-py", "libosutils_py.so"),
    "breezy._annotator_rs": ("annotate-py", "libannotate_py.so"),
}


_RUST_PATHS = ["crates", "src", "Cargo.toml", "Cargo.lock", "build.rs"]


def rust_digest(repo=None):
    """Content hash of every Rust-relevant source file in the repo tree."""
    import hashlib

    repo = repo or REPO
    h = hashlib.sha256()
    files = []
    for rp in _RUST_PATHS:
        p = os.path.join(repo, rp)
        if os.path.isfile(p):
            files.append(p)
        elif os.path.isdir(p):
            for dp, dns, fns in os.walk(p):
                dns[:] = sorted(d for d in dns if d not in ("target", "__pycache__"))
                for f in sorted(fns):
                    files.append(os.path.join(dp, f))
    for f in files:
        h.update(os.path.relpath(f, repo).encode() + b"\0")
        try:
            with open(f, "rb") as fh:
                h.update(fh.read())
        except OSError:
            pass
        h.update(b"\0")
    return h.hexdigest()


def _stamp_ok(target, mod, dig):
    try:
        with open(os.path.join(target, ".vf-stamp-" + _RUST[mod][0])) as f:
            return f.read().strip() == dig and os.path.exists(os.path.join(target, "debug", _RUST[mod][1]))
    except OSError:
        return False


def rust_target_dir():
    return os.environ.get("VERIF_RUST_TARGET_USED") or os.environ.get("VERIF_CARGO_TARGET") or os.path.join(REPO, "target")


def build_rust(modnames, timeout=2400):
    """Make sure fresh builds of the crates behind modnames exist for REPO's current Rust sources.

    A stamp file per package records the source digest it was built from, so an unchanged
    tree costs one hash and no cargo invocation; a scratch copy of the repo whose Rust sources
    equal /repo's reuses /repo/target.  Returns (ok, log); sets VERIF_RUST_TARGET_USED.
    """
    import subprocess

    dig = rust_digest()
    explicit = os.environ.get("VERIF_CARGO_TARGET")
    cands = [explicit] if explicit else [os.path.join(REPO, "target"), "/repo/target"]
    for t in cands:
        if all(_stamp_ok(t, m, dig) for m in modnames):
            os.environ["VERIF_RUST_TARGET_USED"] = t
            return True, "up to date (stamp) in " + t
    target = cands[0]
    if not explicit and os.path.realpath(REPO) != "/repo" and rust_digest("/repo") == dig:
        target = "/repo/target"  # same sources as the main repo: build there (warm cache)
    env = dict(os.environ, CARGO_NET_OFFLINE="true", CARGO_TARGET_DIR=target)
    log = ""
    # one cargo invocation per package: keeps feature unification (and so the
    # build cache) independent of which combination a check asks for
    for m in modnames:
        if _stamp_ok(target, m, dig):
            continue
        try:
            p = subprocess.run(
                ["cargo", "build", "--offline", "-q", "-p", _RUST[m][0]], cwd=REPO, env=env,
                stdout=subprocess.PIPE, stderr=subprocess.STDOUT, timeout=timeout, text=True,
            )
        except (subprocess.TimeoutExpired, OSError) as e:
            return False, repr(e)
        log += p.stdout[-3000:]
        if p.returncode != 0:
            return False, log
        if rust_digest() == dig:
            try:
                with open(os.path.join(target, ".vf-stamp-" + _RUST[m][0]), "w") as f:
                    f.write(dig)
            except OSError:
                pass
    os.environ["VERIF_RUST_TARGET_USED"] = target
    return True, log


DEFAULT_RUST = ["breezy._osutils_rs", "breezy._cmd_rs"]


def use_fresh_rust(modnames):
    """Make `import breezy._x_rs` load target/debug/lib*_py.so (before boot())."""
    import importlib.abc
    import importlib.machinery
    import importlib.util

    table = {}
    for m in modnames:
        so = os.path.join(rust_target_dir(), "debug", _RUST[m][1])
        if not os.path.exists(so):
            raise RuntimeError("missing " + so)
        table[m] = so

    class Finder(importlib.abc.MetaPathFinder):
        def find_spec(self, fullname, path, target=None):
            so = table.get(fullname)
            if so is None:
                return None
            loader = importlib.machinery.ExtensionFileLoader(fullname, so)
            return importlib.util.spec_from_file_location(fullname, so, loader=loader)

    sys.meta_path.insert(0, Finder())
    os.environ["VERIF_FRESH_RUST"] = ",".join(modnames)
