#!/bin/sh
# usage: tools/runall.sh [quick|thorough] [seed]  -> one summary line per registered check
tier="${1:-quick}"; seed="${2:-0}"
cd /verif
for c in $(cat tools/registered.txt); do
  out=$(timeout 3600 ./check $c --tier $tier --seed $seed 2>&1); rc=$?
  echo "$c rc=$rc $(echo "$out" | grep -E "^C[0-9]+ tier" | cut -c1-160)"
  [ $rc -ne 0 ] && echo "$out" | grep -E "failure|VIOLATION|INCONCLUSIVE" | cut -c1-300 | head -6
done
