import json,sys
for l in open('/verif/properties.jsonl'):
    d=json.loads(l)
    if d['id'] in sys.argv[1:]:
        print('==',d['id'],d['title'])
        print('STATEMENT:',d['statement'])
        print('QUANT:',d['quantifier']['text'])
        print('WHY:',d['why_tests_cant'])
        a=d['anchors']
        print('FILES:',a['files'])
        for s in a.get('state',[]): print('  state:',s)
        for m in a['mechanism']: print('  mech:',m)
        print('OBS:',a.get('observe_at'))
