#!/venv/bin/python
"""Print the prompt for a seeding sub-agent for property Cnn (only the property text + worktree path)."""
import json, sys
pid = sys.argv[1]
round2 = len(sys.argv) > 2 and sys.argv[2] == "--round2"
wt = "/tmp/seed-%s" % pid
for l in open("/verif/properties.jsonl"):
    d = json.loads(l)
    if d["id"] == pid:
        break
prior = ""
if round2:
    import os
    lines = []
    for m in ("m1", "m2"):
        mp = "/verif/seeded/%s-%s/agent_meta.json" % (pid, m)
        if os.path.exists(mp):
            lines.append("  - " + str(json.load(open(mp)).get("summary")))
    prior = ("\n\nALREADY TRIED by other people (do NOT repeat these or close variants of them; pick different functions / different clauses of the property / different mechanisms):\n" + "\n".join(lines) +
             "\nName your two changes m3 and m4 (files m3.diff, m3_demo.py, m3_meta.json, m4.diff, m4_demo.py, m4_meta.json) instead of m1/m2 (N = 3, 4).")
text = f"""You are testing how well a verification suite detects regressions in the breezy version control system (Python + some Rust, repository checked out for you as a scratch git worktree at {wt}; python is /venv/bin/python; run code against the worktree with `cd {wt} && PYTHONPATH={wt} /venv/bin/python ...`; the compiled extension modules are already symlinked into {wt}/breezy/). Work ONLY inside {wt} and /tmp/seed-{pid}-out (create it). Do not read or touch /verif or /repo. No network.

The property under test:

TITLE: {d['title']}
STATEMENT: {d['statement']}
QUANTIFIED OVER: {d['quantifier']['text']}
WHY EXISTING TESTS CANNOT SETTLE IT: {d['why_tests_cant']}
CODE ANCHORS: {', '.join(d['anchors']['files'])}; mechanisms: {'; '.join(m['name'] + ' (' + m.get('where', '') + ')' for m in d['anchors']['mechanism'])}

YOUR TASK: produce TWO different, independent, realistic source changes (bugs a developer could plausibly introduce: off-by-one, dropped condition, swapped order of two steps, wrong variable, missing re-check, stale cache, lost lock, mishandled edge case) to the breezy source in the worktree (Python preferred; Rust only if you rebuild it yourself and it is quick) such that, for each change on its own:
  1. breezy still imports and the existing test modules that cover the touched code still pass exactly as before the change (run the relevant test files with `cd {wt} && PYTHONPATH={wt} /venv/bin/python -m pytest -q -p no:cacheprovider -x <test files> -n 8` BEFORE and AFTER and compare the sets of failing tests: some tests fail on the pristine tree already, that is fine - the set must simply not grow);
  2. the change BREAKS the property above, but only under something specific: a particular interleaving, a crash or fault at a particular point, a multi-step sequence of operations, an unusual input, or two cooperating sites that each look fine alone — NOT something ordinary use or a smoke test would expose at once;
  3. you have a demonstration: a standalone script /tmp/seed-{pid}-out/mN_demo.py (N = 1, 2) runnable as `PYTHONPATH=<tree> /venv/bin/python mN_demo.py` that exits 0 on the pristine tree and exits 1 (printing what went wrong) with the change applied. Scratch data under a fresh tempfile.mkdtemp(dir='/dev/shm') that the script removes. The demo must call breezy.initialize(setup_ui=False) style setup itself and set BRZ_HOME / BRZ_EMAIL env to scratch values.
For each change write: /tmp/seed-{pid}-out/mN.diff (`git diff` of ONLY that change against the pristine worktree), mN_demo.py, and mN_meta.json with keys: property ("{pid}"), summary (one line), what_it_needs_to_manifest (the specific schedule / fault / sequence / input), tests_run (the test files you ran and the before/after failing-test counts), demo_pristine_exit, demo_mutant_exit. Revert the worktree to pristine (`git -C {wt} checkout -- .`) between the two changes and at the end. Verify each demo both ways yourself before finishing. Final message: a three-line summary per change."""
print(text + prior)
