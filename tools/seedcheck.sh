#!/bin/sh
# usage: tools/seedcheck.sh Cnn N [extra checks...]  -> confirms seeded change N of /tmp/seed-Cnn-out, runs check(s), stores under /verif/seeded/
p="$1"; n="$2"; shift 2; checks="${*:-$p}"
out=/tmp/seed-$p-out; wt=/dev/shm/seedwt-$p
[ -f $out/m$n.diff ] || { echo "no $out/m$n.diff"; exit 2; }
/verif/tools/mutwt.sh $wt >/dev/null || exit 2
echo "== pristine demo"; (cd /dev/shm && PYTHONPATH=$wt BRZ_HOME=/dev/shm timeout 600 /venv/bin/python $out/m${n}_demo.py >/dev/shm/seed-$p-$n-pristine.log 2>&1; echo "exit=$?")
git -C $wt apply $out/m$n.diff || { echo "DIFF DOES NOT APPLY"; exit 3; }
git -C $wt diff --stat | tail -1
echo "== mutant demo"; (cd /dev/shm && PYTHONPATH=$wt BRZ_HOME=/dev/shm timeout 600 /venv/bin/python $out/m${n}_demo.py >/dev/shm/seed-$p-$n-mutant.log 2>&1; echo "exit=$?"; tail -3 /dev/shm/seed-$p-$n-mutant.log | cut -c1-300)
for c in $checks; do
  echo "== check $c quick"
  (cd /verif && VERIF_REPO=$wt timeout 1500 ./check $c 2>&1 | grep -E "^(C[0-9]+ tier|VIOLATION|INCONCLUSIVE|  failure)" | cut -c1-300 | head -8)
done
d=/verif/seeded/$p-m$n; mkdir -p $d; cp $out/m$n.diff $d/patch.diff; cp $out/m${n}_demo.py $d/demo.py; cp $out/m${n}_meta.json $d/agent_meta.json
git -C /repo worktree remove --force $wt
