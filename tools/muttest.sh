#!/bin/sh
# usage: tools/muttest.sh <worktree> <check> <python-mutation-script-file>
# applies the mutation (a python script run with cwd=worktree), runs quick check with VERIF_REPO, reverts.
wt="$1"; chk="$2"; mut="$3"
[ -d "$wt" ] || /verif/tools/mutwt.sh "$wt" >/dev/null
( cd "$wt" && /venv/bin/python "$mut" ) || { echo "MUTATION FAILED TO APPLY"; exit 3; }
( cd "$wt" && git diff --stat | tail -1 )
cd /verif && VERIF_REPO="$wt" ${VERIF_CARGO_TARGET:+VERIF_CARGO_TARGET=$VERIF_CARGO_TARGET} timeout 900 ./check "$chk" 2>&1 | grep -E "^(C[0-9]+ tier|VIOLATION|INCONCLUSIVE|  failure)" | cut -c1-260 | head -8
git -C "$wt" checkout -- .
