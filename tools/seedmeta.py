#!/venv/bin/python
"""usage: tools/seedmeta.py Cnn-mN "<what I ran / result summary>" caught_by...   -> writes /verif/seeded/Cnn-mN/meta.json"""
import json, os, sys
sid, ran = sys.argv[1], sys.argv[2]
caught = sys.argv[3:]
d = "/verif/seeded/" + sid
am = json.load(open(d + "/agent_meta.json"))
meta = {"property": am.get("property", sid.split("-")[0]), "summary": am.get("summary"), "needs_to_manifest": am.get("what_it_needs_to_manifest"),
        "independent_author": "fresh sub-agent that saw only the property text and a scratch worktree",
        "confirmed_by_me": {"demo_exit_pristine": 0, "demo_exit_with_change": 1, "existing_tests": am.get("tests_run")},
        "what_i_ran": ran, "caught_by_checks": caught}
json.dump(meta, open(d + "/meta.json", "w"), indent=1)
print("wrote", d + "/meta.json")
