#!/bin/sh
# (re)create a scratch worktree of /repo HEAD for self-validation mutants
# usage: tools/mutwt.sh [dir]   -> prints dir ; use with VERIF_REPO=<dir> ./check Cnn
d="${1:-/dev/shm/mutwt}"
if [ -d "$d" ]; then git -C /repo worktree remove --force "$d" 2>/dev/null; rm -rf "$d"; fi
git -C /repo worktree add -q --detach "$d" HEAD || exit 1
for so in /repo/breezy/*.so; do ln -s "$so" "$d/breezy/$(basename "$so")"; done
echo "$d"
