import json,sys
for p in sys.argv[1:]:
    d=json.load(open(p))
    print('==',d['key'],'case',d['case'],'seed',d['seed'],d['tier']); print(d['msg'][:600])
    det=d.get('detail') or {}
    for o in det.get('ops',[]) or (det.get('info') or {}).get('ops',[]): print('  ',o)
    if 'traceback' in det: print(det['traceback'][-1500:])
