#!/venv/bin/python
"""Run the repo's own tests (guard off) for given test files/dirs and compare with BASELINE.json stable_pass.

usage: tools/basecheck.py [--repo DIR] [-n N] <paths relative to repo ...>     (no paths = whole suite)
exit 0 iff every stable_pass test that lives in the selected modules passed."""
import json, os, subprocess, sys, tempfile, xml.etree.ElementTree as ET
args = sys.argv[1:]
repo = "/repo"; n = "12"
while args and args[0] in ("--repo", "-n"):
    if args[0] == "--repo": repo = args[1]
    else: n = args[1]
    args = args[2:]
base = json.load(open("/root/.vp/BASELINE.json"))
stable = set(base["stable_pass"])
out = tempfile.mktemp(suffix=".xml", dir="/dev/shm")
env = dict(os.environ); env.pop("BREEZY_VERIF", None); env["PYTHONPATH"] = repo
cmd = ["/venv/bin/python", "-m", "pytest", "-q", "-p", "no:cacheprovider", "--timeout=900", "--continue-on-collection-errors", "-n", n, "--junitxml=" + out] + args
p = subprocess.run(cmd, cwd=repo, env=env, stdout=subprocess.PIPE, stderr=subprocess.STDOUT, text=True)
print(p.stdout.strip().splitlines()[-1])
res = {}
for tc in ET.parse(out).getroot().iter("testcase"):
    tid = "%s::%s" % (tc.get("classname"), tc.get("name"))
    bad = any(ch.tag in ("failure", "error") for ch in tc)
    skipped = any(ch.tag == "skipped" for ch in tc)
    res[tid] = "fail" if bad else ("skip" if skipped else "pass")
os.unlink(out)
mods = {t.rsplit("::", 1)[0].rsplit(".", 1)[0] for t in res}
want = [t for t in stable if t.rsplit("::", 1)[0].rsplit(".", 1)[0] in mods] if args else list(stable)
broken = [t for t in want if res.get(t) != "pass"]
print("stable_pass tests in scope: %d, not passing now: %d" % (len(want), len(broken)))
for t in sorted(broken)[:40]:
    print("  BROKEN", t, res.get(t, "missing"))
sys.exit(1 if broken else 0)
