#!/venv/bin/python
"""Print the prompt for a strengthening agent: tools/strengthen_prompt.py Cnn m1 [m2]  (seeds already stored in /verif/seeded)."""
import json, sys
pid = sys.argv[1]; ms = sys.argv[2:]
low = pid.lower()
parts = []
for m in ms:
    am = json.load(open("/verif/seeded/%s-%s/agent_meta.json" % (pid, m)))
    parts.append("(%s) /verif/seeded/%s-%s/patch.diff, demonstration /verif/seeded/%s-%s/demo.py, description in /verif/seeded/%s-%s/agent_meta.json.\n    Summary: %s\n    Needs to manifest: %s" % (
        m, pid, m, pid, m, pid, m, am.get("summary"), am.get("what_it_needs_to_manifest")))
print(f"""You are maintaining a runtime-monitoring check for the breezy VCS (repo at /repo, Python 3.12 at /venv/bin/python, harness at /verif). Read /verif/tools/AGENT_PREAMBLE.md (the HARD RULES apply to you: edit only vf/checks/{low}.py, vf/checks/_{low}_*.py, /verif/fixes/{pid}-*; never touch /repo, MANIFEST.json, known_findings.json, shared vf/*.py or other checks; no git commands in /verif or /repo; scratch under /dev/shm only; wrap commands in `timeout`), then /verif/vf/CHECK_AUTHORING.md, then print the property with `/venv/bin/python /verif/tools/prop.py {pid}`, then read /verif/vf/checks/{low}.py (the existing check; on the unchanged tree it exits 0 and reports only the known findings listed for {pid} in /verif/known_findings.json) and DESIGN.md's section-3 entry for {pid}.

TASK: the following independently seeded regression(s) are MISSED by `cd /verif && ./check {pid}` (quick tier, seed 0: 0 violations). Strengthen the check (widen the workload / add the missing observation; do not special-case the seeded diff) so the quick tier catches each of them, while staying silent on the unchanged /repo:
""" + "\n".join(parts) + f"""

How to test against a seeded change without touching /repo: `cd /verif && tools/mutwt.sh /dev/shm/mutwt-{pid} && git -C /dev/shm/mutwt-{pid} apply /verif/seeded/{pid}-m1/patch.diff && VERIF_REPO=/dev/shm/mutwt-{pid} timeout 1200 ./check {pid}`; undo with `git -C /dev/shm/mutwt-{pid} checkout -- .`; at the end `git -C /repo worktree remove --force /dev/shm/mutwt-{pid}`.
Validation required before you finish: unchanged tree exits 0 for `./check {pid} --seed S` with S in 0 1 2 3 7 and `./check {pid} --tier thorough --seed 0`; each seeded change produces a VIOLATION on quick seeds 0 and 1; any seeded change of this property that was already caught (see /verif/seeded/{pid}-m*/meta.json) still is. Keep the quick tier under ~60 s wall on 16 cores. If the stronger check reports something new on the unchanged tree, decide genuine defect vs oracle too strict exactly as the preamble says (patch under /verif/fixes/{pid}-*.patch + .md verified with /verif/tools/basecheck.py --repo <your worktree> <test files>, or a finding write-up with a precise mechanism key).
Final message: what you changed, the keys under which each seeded change is reported, validation numbers, anything found on the unchanged tree.""")
