#!/bin/sh
# usage: reseed.sh Cnn N -> apply stored seeded patch to a scratch worktree and run the quick check
p=$1; n=$2; wt=/dev/shm/reseedwt-$p
/verif/tools/mutwt.sh $wt >/dev/null || exit 2
git -C $wt apply /verif/seeded/$p-m$n/patch.diff || { echo "DIFF DOES NOT APPLY"; git -C /repo worktree remove --force $wt; exit 3; }
(cd /verif && VERIF_REPO=$wt timeout 1500 ./check $p 2>&1 | grep -E "^(C[0-9]+ tier|INCONCLUSIVE|  failure)" | cut -c1-260 | head -6)
git -C /repo worktree remove --force $wt
