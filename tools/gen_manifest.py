#!/venv/bin/python
"""Regenerate /verif/MANIFEST.json from the check modules present in vf/checks."""
import importlib, json, os, sys
V = os.path.dirname(os.path.dirname(os.path.abspath(__file__)))
sys.path.insert(0, V)
props = [json.loads(l) for l in open(os.path.join(V, "properties.jsonl"))]
checks, na = [], []
NA_REASONS = {}
try:
    NA_REASONS = json.load(open(os.path.join(V, "tools", "not_applicable.json")))
except FileNotFoundError:
    pass
engines = {}
REGISTERED = set(open(os.path.join(V, "tools", "registered.txt")).read().split())
for p in props:
    pid = p["id"]
    path = os.path.join(V, "vf", "checks", pid.lower() + ".py")
    if not os.path.exists(path) or pid not in REGISTERED:
        na.append({"property_id": pid, "reason": NA_REASONS.get(pid, "check not built yet in this session (design in DESIGN.md section 3); no claim made")})
        continue
    m = importlib.import_module("vf.checks." + pid.lower())
    checks.append({
        "property_id": pid,
        "quick_cmd": "./check %s --tier quick" % pid,
        "thorough_cmd": "./check %s --tier thorough" % pid,
        "evidence_file": "/verif/evidence/%s.json" % pid,
        "replay_cmd_template": "./check %s --replay {path}" % pid,
        "engine": "vf",
        "level_claimed": {"category": m.LEVEL, "text": getattr(m, "LEVEL_TEXT", m.RULE), "design_ref": "DESIGN.md section 3, " + pid},
        "level_note": "; ".join(getattr(m, "ASSUMPTIONS", [])) or "real breezy code from /repo working tree; oracle in vf/checks/%s.py" % pid.lower(),
        "technique": m.TECHNIQUE,
    })
man = {
    "version": 1,
    "setup_cmd": "/venv/bin/python -c \"import sys; sys.path.insert(0,'/verif'); from vf import boot; boot.ensure_deps(); import jsonschema, icontract; ok, log = boot.build_rust(list(boot._RUST)); print('rust crates:', 'ok' if ok else 'FAILED ' + log[-400:])\"",
    "hooks": {"guard": "BREEZY_VERIF", "enable": "no source hooks: monitors attach from the harness (transport decorators, attribute rebinding, sys.monitoring); BREEZY_VERIF=1 is exported by the harness for completeness", "baseline_off_cmd": "cd /repo && env -u BREEZY_VERIF /venv/bin/python -m pytest -ra -q -p no:cacheprovider --timeout=900 --continue-on-collection-errors", "source_commits": [], "add_only": True},
    "engines": [{"name": "vf", "path": "/verif/vf", "serves_properties": [c["property_id"] for c in checks], "kind_free_text": "runtime monitoring: generated/hostile workloads on the real code, monitors and offline checkers over observed executions"}],
    "checks": checks,
    "not_applicable": na,
    "notes": "Verdicts are three-valued: exit 0 held-on-observed, exit 1 VIOLATION, exit 2 INCONCLUSIVE (never on the unchanged tree). Known findings: /verif/known_findings.json.",
}
json.dump(man, open(os.path.join(V, "MANIFEST.json"), "w"), indent=1)
try:
    sys.path.append(os.path.join(V, ".deps"))
    import jsonschema
    jsonschema.validate(man, json.load(open("/root/.vp/MANIFEST.schema.json")))
    print("MANIFEST valid: %d checks, %d not_applicable" % (len(checks), len(na)))
except ImportError:
    print("written (jsonschema unavailable)")
